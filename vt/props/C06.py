"""C06 — Builtin attributes and types round-trip bit-exactly through text.

Recipe: an attribute/type recipe of vt.attrgen (JSON list).  Oracle: print with the module
printer's `print_attribute` (= str(attr)), parse the text back in a fresh context with
`parse_attribute` (and `parse_type` as well for types); the parser must consume all input and the
result `b` must have the same class, `attr_key(a) == attr_key(b)` (independent structural key,
float payloads as bit patterns, dense bytes verbatim) and `a == b`.
On failure the sub-attributes are round-tripped on their own and the innermost failing one is
blamed (signature `cls`).
"""
from __future__ import annotations

import re

from hypothesis import strategies as st

from vt import attrgen as G
from vt.run import quiet

ID = "C06"
SHARDS = {"quick": 16, "thorough": 16}
RULE = ("recipes over the public constructors of every builtin attribute/type (IntegerAttr widths "
        "0..130/256/1000/4096 x signedness + index with boundary values; FloatAttr of all 18 float "
        "types from declared-width bit patterns, binary64 patterns, +-0, +-inf, NaN payloads, "
        "subnormals, 9/17-digit values; Unicode/escape/control strings; bytes; dense elements "
        "(int, index, every float type, complex; splat, empty, 0-d, multi-d, >100 elements); dense "
        "arrays; arrays; dictionaries (identifier and quoted keys); nested symbol refs; locations; "
        "affine maps/sets; strided layouts; opaque; dense_resource; vector/tensor/memref(layout, "
        "memory space)/function/tuple/complex types), nested to depth 3, plus an exhaustive table "
        "float type x special value x {FloatAttr, dense splat, dense list, dense array}. Only values "
        "accepted by their own verifier are evaluated (others: discarded). Oracle: "
        "parse(print(a)) consumes all input, same class, equal attr_key (bit patterns), a == b. "
        "Non-trivial: contains a non-finite/negative-zero/subnormal/hex-printed float, an integer "
        "at a range boundary or wider than 64 bits, a non-ASCII or escaped string, or nesting "
        "depth >= 2.")
ASSUMPTIONS = [
    "attr_key (vt.attrgen) is a faithful structural identity: class qualname + payload, floats as "
    "bit patterns, dictionaries unordered",
    "memory spaces / encodings that are themselves memref layout attributes, negative shape "
    "dimensions and negative line/column numbers are outside the textual grammar (as in MLIR) and "
    "are not generated",
    "NotImplementedError while constructing or printing (f80/f128 literals, dense elements wider "
    "than 64 bits) means 'unsupported' and is counted as discarded",
    "the process-global dense_resource handle table is cleared before every parse",
]

ESCAPE_CHARS = set('"\\')
_TIMEOUTS: list = []  # parses that hit the per-call budget (reported as inconclusive)


def _short(cls) -> str:
    return cls.__name__


# ------------------------------------------------------------------------------------------------
# oracle
def parse_back(text: str, as_type: bool):
    """-> ('ok', attr, trailing: bool) | ('parse_error', msg) | ('parse_crash:<T>', msg)"""
    from xdsl.context import Context
    from xdsl.dialect_interfaces.op_asm import OpAsmDialectInterface
    from xdsl.dialects.builtin import Builtin
    from xdsl.parser import Parser
    from xdsl.utils.exceptions import ParseError
    from xdsl.utils.mlir_lexer import MLIRTokenKind

    OpAsmDialectInterface._blob_storage.clear()
    ctx = Context()
    ctx.load_dialect(Builtin)
    try:
        with quiet(), G.time_limit():
            p = Parser(ctx, text)
            b = p.parse_type() if as_type else p.parse_attribute()
            trailing = p._current_token.kind is not MLIRTokenKind.EOF
    except G.ParseTimeout:
        _TIMEOUTS.append(text[:80])
        return ("timeout", "")
    except ParseError as e:
        msg = str(e).strip().splitlines()
        return ("parse_error", msg[-1].strip() if msg else "")
    except RecursionError:
        raise
    except Exception as e:  # the parser crashed on text the printer produced
        return ("parse_crash:" + type(e).__name__, repr(e)[:200])
    return ("ok", b, trailing)


def check_one(a, text: str, as_type: bool):
    """None if the round trip holds, else (kind, detail)."""
    res = parse_back(text, as_type)
    if res[0] == "timeout":  # budget hit: no verdict (time is C07's property)
        return None
    if res[0] != "ok":
        return (res[0], res[1])
    _, b, trailing = res
    if trailing:
        return ("trailing_input", f"parsed {b} but input remains")
    if type(b) is not type(a):
        return ("class_changed:" + _short(type(b)), f"re-parsed as {type(b).__name__}: {b!r:.200}")
    ka, kb = G.attr_key(a), G.attr_key(b)
    if ka != kb:
        return ("payload_changed", f"re-parsed value prints as {_safe_str(b)!r:.300}")
    if not (a == b) or not (b == a):
        return ("unequal_same_key", "structurally identical re-parsed value compares unequal")
    return None


def _safe_str(b) -> str:
    try:
        return str(b)
    except NotImplementedError:
        return repr(b)


def roundtrip(a, text: str):
    """First failure over the entry points a module parser would use: (entry, kind, detail)."""
    from xdsl.ir import TypeAttribute
    f = check_one(a, text, False)
    if f is not None:
        return ("attr",) + f
    if isinstance(a, TypeAttribute):
        f = check_one(a, text, True)
        if f is not None:
            return ("type",) + f
    return None


def blame(r):
    """Innermost sub-recipes whose round trip fails on their own: [(recipe, attr, text, failure)]."""
    a = G.build(r)
    text = str(a)
    f = roundtrip(a, text)
    if f is None:
        return []
    inner = []
    for c in G.children(r):
        inner += blame(c)
    return inner or [(r, a, text, f)]


def print_blame(r):
    """Innermost sub-recipe whose printing raises (other than NotImplementedError)."""
    for c in G.children(r):
        try:
            str(G.build(c))
        except NotImplementedError:
            continue
        except Exception:
            return print_blame(c)
    return r, G.build(r)


# ------------------------------------------------------------------------------------------------
# classification (signatures, non-trivial rule, labels)
def str_class(s: str) -> str:
    if any(ord(c) > 0x7F for c in s):
        return "non_ascii"
    if any(c in ESCAPE_CHARS or ord(c) < 0x20 or ord(c) == 0x7F for c in s):
        return "escape"
    if s == "":
        return "empty"
    return "plain"


def bytes_class(raw: bytes) -> str:
    if not raw:
        return "empty"
    if raw.isascii():
        return "ascii"
    try:
        raw.decode("utf-8")
    except UnicodeDecodeError:
        return "non_utf8"
    return "utf8_non_ascii"


def worst_str(strings) -> str:
    order = ["non_ascii", "escape", "empty", "plain"]
    cs = {str_class(s) for s in strings}
    for o in order:
        if o in cs:
            return o
    return "plain"


def int_class(v: int, ty) -> str:
    if ty[0] == "index":
        return "index_wide" if not -2 ** 63 <= v < 2 ** 64 else "index"
    w, sgn = ty[1], ty[2]
    lo, hi = G.int_range(w, sgn)
    cls = "boundary" if v in (lo, hi, -1, (1 << (w - 1)) if w else 0,
                              ((1 << (w - 1)) - 1) if w else 0) else "plain"
    if w == 1 and sgn == 0:
        return "bool_i1"
    if w > 64:
        return "wide_" + cls
    return cls


FLOAT_ORDER = ["nan", "inf", "hex_finite", "neg_zero", "subnormal", "zero", "finite"]
_HEX = re.compile(r"0x[0-9A-Fa-f]+")


def float_value_class(value: float, name: str) -> str:
    """Class of one stored float payload, incl. whether the printer falls back to hex for it."""
    c = G.float_class(value, name)
    if c in ("finite", "subnormal") and name in ("f32", "f64"):
        digits = 9 if name == "f32" else 17
        lossless = False
        try:
            import struct
            fmt = "<f" if name == "f32" else "<d"
            s6 = f"{value:.5e}"
            lossless = struct.unpack(fmt, struct.pack(fmt, float(s6)))[0] == value
        except OverflowError:
            lossless = False
        if not lossless and "." not in f"{value:.{digits}g}":
            return "hex_finite"
    return c


def worst_float(classes) -> str:
    cs = set(classes)
    for o in FLOAT_ORDER:
        if o in cs:
            return o
    return "none"


def elt_name(t) -> str:
    if t[0] == "f":
        return t[1]
    if t[0] == "complex":
        return "complex<" + elt_name(t[1]) + ">"
    if t[0] == "index":
        return "index"
    return ("i", "si", "ui")[t[2]] + str(t[1])


def elt_group(t) -> str:
    """Coarse element-type group for signatures (the exact type goes into the detail text)."""
    if t[0] == "complex":
        return "complex<" + elt_group(t[1]) + ">"
    if t[0] == "f":
        n = t[1]
        return n if n in ("f16", "bf16", "f32", "f64") else "wide" if n in ("f80", "f128") \
            else "small_float"
    if t[0] == "index":
        return "index"
    w = t[1]
    return ("i", "si", "ui")[t[2]] + ("1" if w == 1 else "<=64" if w <= 64 else ">64")


def elt_kind(t) -> str:
    if t[0] == "complex":
        return "complex_" + elt_kind(t[1])
    return "float" if t[0] == "f" else "int"


def _flat_floats(vals):
    for v in vals:
        if isinstance(v, tuple):
            yield from _flat_floats(v)
        elif isinstance(v, float):
            yield v


def dense_form(text: str) -> str:
    body = text[text.index("<") + 1:]
    if body.startswith('"0x'):
        return "hex_string"
    if body.startswith(">"):
        return "empty"
    if body.startswith("["):
        return "list"
    return "splat"


def contains_location(r) -> bool:
    """Does the recipe contain a location attribute (at any depth)?"""
    return r[0].startswith("loc_") or any(contains_location(c) for c in G.children(r))


def describe(r, a, text) -> dict:
    """Discriminating features of a (blamed) node for the signature."""
    tag = r[0]
    d: dict[str, str] = {}
    if tag == "str":
        d["value_class"] = str_class(r[1])
    elif tag == "bytes":
        raw = bytes.fromhex(r[1])
        d["value_class"] = bytes_class(raw)
    elif tag == "int":
        d["value_class"] = int_class(a.value.data, r[2])
    elif tag == "float":
        d["value_class"] = float_value_class(a.value.data, r[2])
        d["elt"] = elt_group(["f", r[2]])
    elif tag in ("dense", "densearr"):
        elt = r[1][1] if tag == "dense" else r[1]
        d["elt"] = elt_group(elt)
        d["elt_kind"] = elt_kind(elt)
        base = elt[1] if elt[0] == "complex" else elt
        if base[0] == "f":
            vals = list(_flat_floats(a.get_values()))
            d["value_class"] = worst_float(float_value_class(v, base[1]) for v in vals)
        else:
            d["value_class"] = "int"
        d["form"] = dense_form(text) if tag == "dense" else ("empty" if not r[2] else "list")
    elif tag == "symref":
        d["value_class"] = worst_str([r[1]] + list(r[2]))
    elif tag == "dict":
        d["value_class"] = "key_" + worst_str([k for k, _ in r[1]])
    elif tag in ("loc_file", "loc_name"):
        d["value_class"] = worst_str([r[1]])
    elif tag == "opaque":
        d["value_class"] = worst_str([r[1], r[2]])
    elif tag == "loc_fused":
        d["value_class"] = ("no_metadata" if r[2] is None else
                            "metadata_with_location" if contains_location(r[2]) else "metadata")
    else:
        d["value_class"] = "-"
    return d


def features(r, out=None) -> set:
    """Non-trivial features of a recipe (before building)."""
    out = set() if out is None else out
    tag = r[0]
    if tag == "str":
        c = str_class(r[1])
        if c in ("non_ascii", "escape"):
            out.add("str_" + c)
    elif tag == "bytes":
        if not bytes.fromhex(r[1]).isascii():
            out.add("bytes_non_ascii")
    elif tag == "int":
        c = int_class(r[1], r[2])
        if c != "plain" and c != "index":
            out.add("int_" + c)
    elif tag == "float":
        _float_feature(G.fspec_value(r[1], r[2]), r[2], out)
    elif tag in ("dense", "densearr"):
        elt = r[1][1] if tag == "dense" else r[1]
        base = elt[1] if elt[0] == "complex" else elt
        vals = G.dense_values(r) if tag == "dense" else r[2]
        for v in vals:
            for x in (v if elt[0] == "complex" else [v]):
                if base[0] == "f":
                    _float_feature(G.fspec_value(x, base[1]), base[1], out)
                elif int_class(x, base) not in ("plain", "index"):
                    out.add("int_boundary")
    elif tag in ("symref", "dict", "loc_file", "loc_name", "opaque"):
        strs = ([r[1]] + list(r[2]) if tag == "symref" else [k for k, _ in r[1]] if tag == "dict"
                else [r[1], r[2]] if tag == "opaque" else [r[1]])
        c = worst_str(strs)
        if c in ("non_ascii", "escape"):
            out.add("str_" + c)
    for c in G.children(r):
        features(c, out)
    return out


def _float_feature(x: float, name: str, out: set):
    c = float_value_class(x, name) if name in ("f32", "f64") else G.float_class(x, name)
    if c not in ("finite", "zero"):
        out.add("float_" + c)
    elif c == "finite" and name in ("f32", "f64") and float(f"{x:.5e}") != x:
        out.add("float_many_digits")


# ------------------------------------------------------------------------------------------------
def run_recipe(h, r, label):
    counting = not getattr(h, "_shrinking", False)  # the harness' delta-debugger re-runs bodies
    try:
        a = G.build(r)
    except G.Rejected as e:
        if counting:
            h.discard(e.label)
        return
    try:
        text = str(a)
    except NotImplementedError:
        if counting:
            h.discard("print_not_implemented:" + type(a).__name__)
        return
    except RecursionError:
        raise
    except Exception as e:  # the printer crashed on a value its own verifier accepted
        br, ba = print_blame(r)
        sig = {"check": "roundtrip", "cls": type(ba).__name__,
               "kind": "print_crash:" + type(e).__name__, "entry": "print", "value_class": "-"}
        h.mismatch(sig, br, f"printing {ba!r:.300} raised {e!r:.200}")
        return
    if counting:
        feats = features(r)
        if G.depth(r) >= 2:
            feats.add("depth>=2")
        h.case(r, bool(feats), label=label + ":" + type(a).__name__,
               sample={"recipe": r, "text": text[:300]})
        for f in sorted(feats):
            h.count("feature:" + f)
    n_to = len(_TIMEOUTS)
    blamed = blame(r)
    if len(_TIMEOUTS) > n_to and counting:
        h.inconclusive("parse_timeout", len(_TIMEOUTS) - n_to)
    for br, ba, btext, (entry, kind, detail) in blamed:
        sig = {"check": "roundtrip", "cls": type(ba).__name__, "kind": kind, "entry": entry}
        sig.update(describe(br, ba, btext))
        if kind.startswith("parse_") and sig.get("value_class") != "metadata_with_location":
            sig["err"] = re.sub(r"\d+", "N", detail)[:60]
        h.mismatch(sig, br, f"{type(ba).__name__} printed as {btext[:300]!r}: {kind}: {detail}")



def replay(h, recipe):
    run_recipe(h, recipe, "replay")


def special_table():
    """Exhaustive table: float type x special value x container form."""
    for name in G.FLOAT_NAMES:
        for b in G.F64_SPECIAL:
            f = ["d", b]
            yield ["float", f, name]
            yield ["dense", ["tensor", ["f", name], [2], None], [f], "splat"]
            yield ["dense", ["tensor", ["f", name], [2], None], [["d", G.d2bits(1.0)], f], "cycle"]
            if name in ("f32", "f64", "f16", "bf16"):
                yield ["densearr", ["f", name], [["d", G.d2bits(1.0)], f]]
            if name in ("f32", "f64"):
                yield ["dense", ["tensor", ["complex", ["f", name]], [1], None], [[f, f]], "cycle"]


def int_table():
    for w in G.WIDTHS + [0, 256]:
        for sgn in (0, 1, 2):
            ty = ["i", w, sgn]
            lo, hi = G.int_range(w, sgn)
            for v in sorted({lo, hi, 0, max(lo, -1), min(hi, 1), min(hi, 1 << max(w - 1, 0))}):
                yield ["int", v, ty]
                if 0 < w <= 64:
                    yield ["dense", ["tensor", ty, [2], None], [v], "splat"]
                    yield ["densearr", ty, [v, 0]]


def checks(h):
    idx = 0
    for gen, label in ((special_table(), "table_float"), (int_table(), "table_int")):
        for r in gen:
            idx += 1
            if idx % h.nshards != h.shard:
                continue
            run_recipe(h, r, label)

    def body(label):
        return lambda r: run_recipe(h, r, label)

    strings = st.one_of(
        st.tuples(st.just("str"), G.text_s(8)).map(list), G.bytes_s(),
        st.tuples(st.just("symref"), G.key_s(), st.lists(G.key_s(), max_size=3)).map(list),
        st.tuples(st.just("dict"), st.lists(st.tuples(G.key_s(), st.just(["unit"])).map(list),
                                            max_size=3, unique_by=lambda kv: kv[0])).map(list),
        st.tuples(st.just("opaque"), G.text_s(4), G.text_s(4), st.none()).map(list),
        st.tuples(st.just("loc_file"), G.text_s(4), st.integers(0, 9), st.integers(0, 9)).map(list),
    )
    n = h.scale
    h.hyp("int", G.int_attr_s(), body("int"), n(250, 6000), 1)
    h.hyp("float", G.float_attr_s(), body("float"), n(400, 10000), 2)
    h.hyp("string", strings, body("string"), n(300, 6000), 3)
    h.hyp("dense", st.one_of(G.dense_s(), G.dense_s(), G.densearr_s()), body("dense"),
          n(450, 10000), 4)
    h.hyp("types", G.type_s(2), body("types"), n(250, 5000), 5)
    h.hyp("misc", st.one_of(G.loc_s(2), G.affine_map_s(), G.affine_set_s(), G.strided_s()),
          body("misc"), n(250, 5000), 6)
    h.hyp("nested", G.attr_s(2), body("nested"), n(350, 8000), 7)
