"""C03 — Structural equivalence holds exactly for isomorphic IR.

Recipe kinds:
  {"kind": "pair",  "x": <irgen recipe>, "mut": [kind, a, b] | None, "y": <irgen recipe> | None,
   "level": "op"|"region"|"block"}
      mut given  -> compare x with a single-point mutant of its clone
      y given    -> compare two independent modules
      neither    -> x with its clone, x with itself
  {"kind": "corpus", "chunk": i, "mut": [kind, a, b] | None}
  {"kind": "opinfo", "x": <irgen recipe>, "i": int, "j": int}    OperationInfo eq/hash on two ops of one block
Oracle: vt.canon positional isomorphism; reflexivity, symmetry, clone.
"""
from __future__ import annotations

from hypothesis import strategies as st

from vt import canon as C
from vt import corpus, irgen

ID = "C03"
SHARDS = {"quick": 16, "thorough": 16}
RULE = ("pairs (x, x), (x, clone x), (x, single-point mutant of clone x) for mutation kinds result type, "
        "attribute value/key, property, operand rewiring, successor, block order, block-arg type, op "
        "name, op order, nested op removal; independent pairs; on irgen modules (incl. graph-region "
        "use-before-def and forward block references) and corpus chunks; entry points "
        "Operation/Region/Block.is_structurally_equivalent on parent-less roots and on regions of "
        "attached ops, OperationInfo.__eq__/__hash__ (CSE key). Oracle: equivalence reported <=> "
        "canonical forms equal, both directions, plus reflexive/symmetric/clone laws. Non-trivial: the "
        "pair differs in exactly one field, or the IR contains a use before its definition.")
ASSUMPTIONS = ["vt.canon canonical form is a correct positional isomorphism check"]

MUTS = ["result_type", "attr_value", "attr_key", "prop", "operand", "successor", "block_order",
        "block_arg_type", "op_name", "op_order", "remove_op", "add_block_arg", "drop_result"]


def has_forward_ref(root) -> bool:
    seen = set()
    fwd = False

    def region(r):
        nonlocal fwd
        for b in r.blocks:
            seen.update(id(a) for a in b.args)
        for b in r.blocks:
            for o in b.ops:
                visit(o)

    def visit(o):
        nonlocal fwd
        for v in o.operands:
            if id(v) not in seen:
                fwd = True
        for r in o.regions:
            region(r)
        seen.update(id(r) for r in o.results)
    visit(root)
    return fwd


def mutate(y, kind, a, b) -> bool:
    """Apply one single-point change to module y (a clone). Returns False if not applicable."""
    from xdsl.dialects.builtin import IntegerAttr, i64
    from xdsl.dialects.test import TestOp, TestPureOp
    from xdsl.rewriter import Rewriter
    ts = irgen.types()
    ops = [o for o in y.walk() if o is not y]
    if not ops:
        return False
    if kind == "result_type":
        c = [o for o in ops if o.results]
        if not c:
            return False
        o = c[a % len(c)]
        r = o.results[b % len(o.results)]
        nt = next(t for t in ts if t != r.type)
        Rewriter.replace_value_with_new_type(r, nt)
        return True
    if kind == "attr_value":
        c = [o for o in ops if any(k != "op_name__" for k in o.attributes)]
        if not c:
            return False
        o = c[a % len(c)]
        keys = sorted(k for k in o.attributes if k != "op_name__")
        k = keys[b % len(keys)]
        o.attributes[k] = IntegerAttr(123456, i64)
        return True
    if kind == "attr_key":
        o = ops[a % len(ops)]
        if b % 2 and any(k != "op_name__" for k in o.attributes):
            keys = sorted(k for k in o.attributes if k != "op_name__")
            del o.attributes[keys[b % len(keys)]]
        else:
            o.attributes["c03_new_key"] = IntegerAttr(1, i64)
        return True
    if kind == "prop":
        o = ops[a % len(ops)]
        if b % 2 and o.properties:
            keys = sorted(o.properties)
            del o.properties[keys[b % len(keys)]]
        else:
            o.properties["prop2"] = IntegerAttr(987, i64)
        return True
    if kind == "operand":
        c = [o for o in ops if len(o.operands)]
        if not c:
            return False
        o = c[a % len(c)]
        i = b % len(o.operands)
        vals = [r for q in ops for r in q.results if r is not o.operands[i]]
        for blk in [bl for q in y.walk() for rg in q.regions for bl in rg.blocks]:
            vals.extend(x for x in blk.args if x is not o.operands[i])
        if not vals:
            return False
        same = [v for v in vals if v.type == o.operands[i].type]
        pool = same or vals
        o.operands[i] = pool[(a + b) % len(pool)]
        return True
    if kind == "successor":
        c = [o for o in ops if len(o.successors) and len(o.parent.parent.blocks) > 1]
        if not c:
            return False
        o = c[a % len(c)]
        i = b % len(o.successors)
        others = [bl for bl in o.parent.parent.blocks if bl is not o.successors[i]]
        o.successors[i] = others[(a + b) % len(others)]
        return True
    if kind == "block_order":
        regs = [rg for q in y.walk() for rg in q.regions if len(rg.blocks) > 1]
        if not regs:
            return False
        rg = regs[a % len(regs)]
        blk = rg.blocks[1 + b % (len(rg.blocks) - 1)]
        before = C.canon(rg)
        rg.detach_block(blk)
        rg.insert_block(blk, 0)
        return C.canon(rg) != before or True
    if kind == "block_arg_type":
        blks = [bl for q in y.walk() for rg in q.regions for bl in rg.blocks if bl.args]
        if not blks:
            return False
        bl = blks[a % len(blks)]
        ar = bl.args[b % len(bl.args)]
        Rewriter.replace_value_with_new_type(ar, next(t for t in ts if t != ar.type))
        return True
    if kind == "op_name":
        c = [o for o in ops if o.name in ("test.op", "test.pureop")]
        if not c:
            return False
        o = c[a % len(c)]
        cls = TestPureOp if o.name == "test.op" else TestOp
        regs = [o.detach_region(rg) for rg in list(o.regions)]
        new = cls.create(operands=list(o.operands), result_types=[r.type for r in o.results],
                         attributes=dict(o.attributes), properties=dict(o.properties), regions=regs)
        Rewriter.replace_op(o, new)
        return True
    if kind == "op_order":
        c = [o for o in ops if o.next_op is not None and o.next_op.next_op is not None]
        if not c:
            return False
        o = c[a % len(c)]
        nxt = o.next_op
        if C.canon(o) == C.canon(nxt) and not o.results:
            return False
        o.detach()
        nxt.parent.insert_op_after(o, nxt)
        return True
    if kind == "remove_op":
        c = [o for o in ops if o.next_op is not None and not any(r.first_use for r in o.results)]
        if not c:
            return False
        o = c[a % len(c)]
        Rewriter.erase_op(o)
        return True
    if kind == "add_block_arg":
        blks = [bl for q in y.walk() for rg in q.regions for bl in rg.blocks]
        bl = blks[a % len(blks)]
        if bl.parent is y.regions[0]:
            return False
        bl.insert_arg(ts[b % len(ts)], len(bl.args))
        return True
    if kind == "drop_result":
        c = [o for o in ops if o.results and not o.results[-1].first_use
             and o.name in ("test.op", "test.pureop")]
        if not c:
            return False
        o = c[a % len(c)]
        regs = [o.detach_region(rg) for rg in list(o.regions)]
        new = type(o).create(operands=list(o.operands), result_types=[r.type for r in o.results][:-1],
                             attributes=dict(o.attributes), properties=dict(o.properties), regions=regs)
        Rewriter.replace_op(o, new, new_results=list(new.results) + [None])
        return True
    raise AssertionError(kind)


def compare(h, recipe, x, y, relation, mut=None, fwd=False):
    """x, y: modules. Check op-, region- and block-level equivalence against canon."""
    pairs = [("op", x, y), ("region", x.regions[0], y.regions[0]),
             ("block", x.regions[0].blocks[0], y.regions[0].blocks[0])]
    # the way CSE / OperationInfo use it: regions of attached ops
    xo = [o for o in x.walk() if o.regions and o is not x]
    yo = [o for o in y.walk() if o.regions and o is not y]
    if xo and yo and len(xo) == len(yo):
        pairs.append(("nested_region", xo[0].regions[0], yo[0].regions[0]))
    for level, p, q in pairs:
        exp = C.canon(p) == C.canon(q)
        for direction, (s, t) in (("ab", (p, q)), ("ba", (q, p))):
            try:
                got = s.is_structurally_equivalent(t)
            except Exception as e:  # equivalence must be a total predicate
                h.mismatch({"check": "equiv_raises", "level": level, "exc": type(e).__name__}, recipe,
                           f"{relation}: is_structurally_equivalent raised {e!r}")
                continue
            if got != exp:
                sig = {"check": "equiv", "level": level if level != "nested_region" else "region",
                       "relation": relation, "dir": "false_negative" if exp else "false_positive",
                       "mut": mut or "-", "forward_ref": fwd}
                d = C.first_diff(C.canon(p), C.canon(q)) if not exp else ""
                h.mismatch(sig, recipe, f"{level} {direction}: reported {got}, isomorphic={exp}; {d}")


def run_pair(h, r, x):
    fwd = has_forward_ref(x)
    h.count("forward_ref" if fwd else "no_forward_ref")
    mut = r.get("mut")
    if mut is not None:
        kind = MUTS[mut[0] % len(MUTS)]
        y = x.clone()
        base = C.canon(y)
        applied = mutate(y, kind, mut[1], mut[2])
        changed = applied and C.canon(y) != base
        h.case(r, bool(changed), label="mut_" + kind if changed else "mut_not_applicable")
        if not changed:
            return
        compare(h, r, x, y, "mutant", kind, fwd)
    elif r.get("y") is not None:
        y = irgen.build(r["y"]).module
        h.case(r, fwd, label="independent")
        compare(h, r, x, y, "independent", None, fwd)
    else:
        h.case(r, fwd, label="clone_reflexive")
        compare(h, r, x, x, "self", None, fwd)
        compare(h, r, x, x.clone(), "clone", None, fwd)


def run_opinfo(h, r):
    from xdsl.transforms.common_subexpression_elimination import OperationInfo
    x = irgen.build(r["x"]).module
    blocks = [bl for o in x.walk() for rg in o.regions for bl in rg.blocks if len(bl.ops) >= 2]
    if not blocks:
        h.case(r, False, label="opinfo_na")
        return
    bl = blocks[r["i"] % len(blocks)]
    ops = list(bl.ops)
    o1 = ops[r["j"] % len(ops)]
    if r.get("dup"):
        # make a twin of o1 right after it (same operands) so that equal keys occur
        o2 = o1.clone()
        bl.insert_op_after(o2, o1)
        if r.get("mut") is not None:
            kind = MUTS[r["mut"][0] % len(MUTS)]
            if kind in ("result_type", "attr_value", "attr_key", "prop", "operand"):
                # mutate inside a holder so that `mutate` sees just this op
                pass
    else:
        o2 = ops[(r["j"] + 1 + r.get("k", 0)) % len(ops)]
    exp = C.canon(o1) == C.canon(o2)
    h.case(r, exp or bool(r.get("dup")), label="opinfo_equal" if exp else "opinfo_differ")
    a, b = OperationInfo(o1), OperationInfo(o2)
    try:
        got = a == b
        got2 = b == a
    except Exception as e:
        feats = {"regions_differ": len(o1.regions) != len(o2.regions)}
        h.mismatch({"check": "opinfo_eq_raises", "exc": type(e).__name__, **feats}, r, repr(e))
        return
    if got != got2:
        h.mismatch({"check": "opinfo_asymmetric"}, r, f"{got} vs {got2}")
    if got != exp:
        h.mismatch({"check": "opinfo_eq", "dir": "false_negative" if exp else "false_positive",
                    "forward_ref": has_forward_ref(o1)}, r,
                   f"OperationInfo eq {got}, isomorphic {exp}: " + C.first_diff(C.canon(o1), C.canon(o2)))
    if got and hash(a) != hash(b):
        h.mismatch({"check": "opinfo_hash"}, r, "equal OperationInfo keys hash differently")


def run(h, r):
    k = r["kind"]
    if k == "pair":
        run_pair(h, r, irgen.build(r["x"]).module)
    elif k == "corpus":
        ch = corpus.chunks()
        m = corpus.parse_chunk(ch[r["chunk"] % len(ch)][2])
        if m is None:
            h.discard("chunk_rejected")
            return
        run_pair(h, r, m)
    elif k == "opinfo":
        run_opinfo(h, r)
    else:
        raise AssertionError(k)


def replay(h, recipe):
    run(h, recipe)


def checks(h):
    mods = irgen.module_recipes(depth=2, max_ops=3, max_blocks=3)
    mut = st.tuples(st.integers(0, len(MUTS) - 1), st.integers(0, 40), st.integers(0, 40)).map(list)
    s_mut = st.fixed_dictionaries({"kind": st.just("pair"), "x": mods, "mut": mut})
    s_clone = st.fixed_dictionaries({"kind": st.just("pair"), "x": mods, "mut": st.none(), "y": st.none()})
    s_ind = st.fixed_dictionaries({"kind": st.just("pair"), "x": irgen.module_recipes(depth=1, max_ops=2, max_blocks=2),
                                   "mut": st.none(), "y": irgen.module_recipes(depth=1, max_ops=2, max_blocks=2)})
    s_corpus = st.fixed_dictionaries({"kind": st.just("corpus"), "chunk": st.integers(0, 5000),
                                      "mut": st.one_of(st.none(), mut)})
    s_opinfo = st.fixed_dictionaries({"kind": st.just("opinfo"), "x": mods, "i": st.integers(0, 20),
                                      "j": st.integers(0, 20), "k": st.integers(0, 3), "dup": st.booleans()})
    n = h.scale(32, 300)
    h.hyp("mutants", s_mut, lambda r: run(h, r), n * 2, 1)
    h.hyp("clone_reflexive", s_clone, lambda r: run(h, r), n, 2)
    h.hyp("independent", s_ind, lambda r: run(h, r), n, 3)
    h.hyp("corpus", s_corpus, lambda r: run(h, r), max(20, n // 2), 4)
    h.hyp("opinfo", s_opinfo, lambda r: run(h, r), n, 5)
