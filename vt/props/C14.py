"""C14 -- canonicalize, constant folding and CSE preserve program results.

Recipe = a vt.progen program recipe plus
    "kind":  "prog"
    "pipes": [[pass name, ...], ...]    pipelines (1..3 passes each) to apply, each to a fresh clone of the program
    "nin":   optional number of input vectors (default 6; the operand tables use 12 boundary inputs)
    "flat":  0|1    1: the ops of the (single-block) entry function are hoisted to the top level of the module, its
                    arguments replaced by constants (input vector 0) and its results fed to a `test.op` sink -- the
                    form the xDSL filecheck tests of the constant-folding test passes use (they only look at
                    top-level ops).  For evaluation the top-level ops are moved back into a function.
Every stage of a pipeline is checked against ITS OWN input (which by induction is equivalent to the original
program), so the "pass" of a signature is always a single pass.
"""
from __future__ import annotations

import itertools
import math
import signal
import traceback
from contextlib import contextmanager

from hypothesis import strategies as st

from vt import corpus, progen, refsem
from vt.canon import canon
from vt.run import quiet

ID = "C14"
SHARDS = {"quick": 16, "thorough": 16}
PASSES = ["canonicalize", "constant-fold-interp", "test-constant-folding", "test-specialised-constant-folding",
          "cse"]
RULE = ("progen func/arith/scf/cf programs over i1,i8,i16,i32,i64,index,f32,f64 (boundary constants, duplicated "
        "pure ops, select/cmp chains, external calls, printf, memref alloc/load/store between duplicate loads; no "
        "fastmath flags) in five campaigns: general programs with arguments, nsw/nuw-flagged programs, programs ending "
        "in load; {store same/other cell | call | scf.if/for with a store | nothing}; load of the same cell, "
        "argument-free (fully constant, foldable) programs, and 'flat' modules (ops at module top level + test.op sink, the form "
        "the constant-folding test passes operate on); plus a deterministic fold table: every arith binary op / "
        "cmpi+cmpf predicate / cast / select / negf on boundary x boundary constant operands, 24 ops per function, "
        "and a partial-operand table: every integer binary op / cmpi predicate on (argument, constant), (constant, "
        "argument) and (x, x), select with an argument condition, run on 12 boundary inputs. "
        "Each program is cloned and run through canonicalize, constant-fold-interp, test-constant-folding, "
        "test-specialised-constant-folding, cse and one random pipeline of 2-3 of them (fresh Context with all "
        "dialects per pass). Oracle per pipeline stage: the pass must not raise; its output must verify(); "
        "vt.refsem of the stage input and output agree on 6 boundary+generated input vectors "
        "(refsem.compare_results: values bit-exact with NaN==NaN, ordered effect logs equal; runs whose input "
        "program is POISON/UB/out of fuel are excluded and counted). A semantic difference is attributed to the "
        "first pure op whose backward slice ('cone'), extracted into its own function (leaves as arguments, or closed "
        "with the values observed in the failing run), is already mis-transformed by the same pass; otherwise to a "
        "pair of same-kind ops the pass merged, otherwise to the op kinds the pass removed. Non-trivial: some stage changed the "
        "canonical form (vt.canon) of the program and at least one input was compared (not excluded).")
ASSUMPTIONS = ["vt.refsem implements the MLIR arith/scf/cf/func/memref semantics (self-test table run once per process); "
               "index is evaluated at 64 bits",
               "external functions are deterministic black boxes whose calls are observable effects",
               "a pass exceeding 20 s of CPU on one small program is counted as inconclusive, not as a violation"]

NINPUTS = 6
FUEL = 20000
PASS_CPU_S = 20.0

_state: dict = {}


def _init():
    if "init" not in _state:
        # the interpreter behind constant-fold-interp evaluates `shli c, 2**33` with Python ints (gigabytes):
        # cap the address space of this process so that such a fold ends in MemoryError (-> inconclusive)
        import resource
        soft, hard = resource.getrlimit(resource.RLIMIT_AS)
        cap = 6 << 30
        if soft == resource.RLIM_INFINITY or soft > cap:
            resource.setrlimit(resource.RLIMIT_AS, (cap, hard))
        refsem.selftest()
        from xdsl.transforms import get_all_passes
        allp = get_all_passes()
        _state["passes"] = {n: allp[n]() for n in PASSES}
        _state["init"] = True


# ---------------------------------------------------------------------------------------------
# applying passes
# ---------------------------------------------------------------------------------------------

class PassTimeout(Exception):
    pass


class Unclonable(Exception):
    """An op built by test-specialised-constant-folding (ConstantOp.__new__, no `location`) cannot be cloned."""


def _clone(x, *args):
    try:
        return x.clone(*args)
    except AttributeError as e:
        if "location" in str(e):
            raise Unclonable() from e
        raise


@contextmanager
def cpu_limit(seconds: float):
    """Repeating CPU-time watchdog (an exception raised from a signal handler inside a gc callback is dropped;
    the next tick raises again)."""
    def on_alarm(signum, frame):
        raise PassTimeout()
    old = signal.signal(signal.SIGVTALRM, on_alarm)
    signal.setitimer(signal.ITIMER_VIRTUAL, seconds, 0.5)
    try:
        try:
            yield
        finally:
            signal.setitimer(signal.ITIMER_VIRTUAL, 0, 0)
    finally:
        signal.setitimer(signal.ITIMER_VIRTUAL, 0, 0)
        signal.signal(signal.SIGVTALRM, old)


def exc_site(e: BaseException) -> str:
    """Innermost xdsl frame of an exception: 'relative/file.py:function'."""
    site = "-"
    for f in traceback.extract_tb(e.__traceback__):
        fn = f.filename.replace("\\", "/")
        if "/xdsl/" in fn:
            site = fn.rsplit("/xdsl/", 1)[1] + ":" + f.name
    return site


def apply_pass(name: str, module):
    """Apply one registered pass in a fresh Context.  Returns None, or the exception it raised."""
    _init()
    p = _state["passes"][name]()
    try:
        with cpu_limit(PASS_CPU_S):
            with quiet():
                p.apply(corpus.make_ctx(), module)
    except PassTimeout:
        raise
    except (RecursionError, MemoryError):
        raise PassTimeout()
    except Exception as e:       # reported as a violation by the caller, never swallowed
        return e
    return None


# ---------------------------------------------------------------------------------------------
# value / type classes for signatures
# ---------------------------------------------------------------------------------------------

def _is_f(t):
    return t in ("f16", "f32", "f64")


def width_class(t: str) -> str:
    if _is_f(t) or t == "index" or t == "i1":
        return t
    if t[:1] == "i" and t[1:].isdigit():
        return "int"
    return "other"


_TINY = {"f32": 1.1754943508222875e-38, "f64": 2.2250738585072014e-308, "f16": 6.103515625e-05}


def value_class(opname: str, in_tys, args, results) -> str:
    """Class of the operand values on which an op was mis-transformed (stable, coarse)."""
    short = opname.split(".", 1)[-1]
    fl = [(v, t) for v, t in zip(args, in_tys) if _is_f(t) and isinstance(v, float)]
    if fl:
        if any(v != v for v, _ in fl):
            return "nan"
        if short == "divf" and len(fl) == 2 and fl[1][0] == 0.0:
            return "div_by_neg_zero" if math.copysign(1.0, fl[1][0]) < 0 else "div_by_pos_zero"
        if any(v == 0.0 and math.copysign(1.0, v) < 0 for v, _ in fl):
            return "neg_zero"
        if any(v in (math.inf, -math.inf) for v, _ in fl):
            return "inf"
        for r in results:
            if isinstance(r, float):
                if r != r:
                    return "nan_result"
                if r in (math.inf, -math.inf):
                    return "overflow"
                if r == 0.0 and math.copysign(1.0, r) < 0:
                    return "neg_zero_result"
        if any(v != 0.0 and abs(v) < _TINY[t] for v, t in fl):
            return "subnormal"
        if any(t != "f64" for _, t in fl) and short in ("addf", "subf", "mulf", "divf") and len(fl) == 2:
            a, b = fl[0][0], fl[1][0]
            exact = {"addf": a + b, "subf": a - b, "mulf": a * b, "divf": a / b if b else math.nan}[short]
            if results and isinstance(results[0], float) and exact != results[0]:
                return "rounding"
        return "finite"
    ints = [(v, t) for v, t in zip(args, in_tys) if isinstance(v, int) and not _is_f(t)]
    if not ints:
        return "-"
    w = refsem.int_width(ints[-1][1], 64)
    if len(ints) >= 2 and ints[0][1] == ints[1][1]:
        a, b = ints[-2][0], ints[-1][0]
        sa, sb = refsem.to_signed(a, w), refsem.to_signed(b, w)
        if short in ("shli", "shrsi", "shrui") and b >= w:
            return "shift_ge_width"
        if short in ("divsi", "divui", "remsi", "remui", "floordivsi", "ceildivsi", "ceildivui") and b == 0:
            return "div_by_zero"
        if short in ("divsi", "floordivsi", "ceildivsi", "remsi") and sb == -1 and sa == -(1 << (w - 1)):
            return "div_overflow"
        if short in ("addi", "subi", "muli"):
            ex = {"addi": sa + sb, "subi": sa - sb, "muli": sa * sb}[short]
            if not (-(1 << (w - 1)) <= ex < (1 << (w - 1))):
                return "overflow"
    if any((v >> (refsem.int_width(t, 64) - 1)) & 1 for v, t in ints):
        return "top_bit"
    return "plain"


def op_pred(op) -> str:
    if op.name == "arith.cmpi":
        return refsem.CMPI[op.properties["predicate"].value.data]
    if op.name == "arith.cmpf":
        return refsem.CMPF[op.properties["predicate"].value.data]
    return "-"


# ---------------------------------------------------------------------------------------------
# subjects: a module + how to evaluate it
# ---------------------------------------------------------------------------------------------

def run_all(module, fname, vecs, fuel=FUEL, trace=None):
    return [refsem.run_function(module, fname, v, index_bits=64, fuel=fuel, trace=trace) for v in vecs]


def make_flat(module, fname, vec):
    """Hoist the ops of single-block function `fname` to module level (args := constants, results -> test.op)."""
    from xdsl.dialects import arith, builtin as b, test
    m = module.clone()
    f = [o for o in m.body.block.ops if o.name == "func.func" and o.properties["sym_name"].data == fname][0]
    if len(f.regions[0].blocks) != 1:
        raise ValueError("flat form needs a single-block function")
    blk = f.regions[0].blocks[0]
    consts = []
    for a, v in zip(blk.args, vec):
        t = refsem.type_name(a.type)
        if _is_f(t):
            c = arith.ConstantOp(b.FloatAttr(float(v), a.type))
        else:
            w = refsem.int_width(t, 64)
            c = arith.ConstantOp(b.IntegerAttr(refsem.to_signed(int(v), w), a.type))
        consts.append(c)
        a.replace_all_uses_with(c.results[0])
    ops = list(blk.ops)
    ret = ops[-1]
    assert ret.name == "func.return"
    sink = test.TestOp(operands=list(ret.operands))
    blk.erase_op(ret)
    for o in ops[:-1]:
        o.detach()
    top = m.body.block
    top.erase_op(f)
    top.add_ops(consts + ops[:-1] + [sink])
    m.verify()
    return m


def wrap_flat(flat):
    """Copy of a flat module with the top-level non-function ops moved into `func @flat() -> ()`."""
    m = _clone(flat)
    _into_func(m)
    return m


def _into_func(m):
    from xdsl.dialects import func
    from xdsl.ir import Block, Region
    top = m.body.block
    body = [o for o in top.ops if o.name != "func.func"]
    for o in body:
        o.detach()
    blk = Block()
    blk.add_ops(body + [func.ReturnOp()])
    f = func.FuncOp("flat", ([], []), Region(blk))
    top.add_op(f)
    return f, body


def eval_flat_inplace(m, fuel):
    """Evaluate a flat module without cloning it (the output of a pass need not be clonable to be compared):
    the top-level ops are moved into a function for the run and moved back afterwards."""
    f, body = _into_func(m)
    try:
        return run_all(m, "flat", [()], fuel)
    finally:
        for o in body:
            o.detach()
        m.body.block.erase_op(f)
        m.body.block.add_ops(body)


class Subject:
    """A program in one of the two forms, with its evaluator."""

    def __init__(self, module, fname, vecs, flat):
        self.module, self.fname, self.vecs, self.flat = module, fname, vecs, flat

    def evaluate(self, module, fuel=FUEL):
        if self.flat:
            return eval_flat_inplace(module, fuel)
        return run_all(module, self.fname, self.vecs, fuel)


# ---------------------------------------------------------------------------------------------
# localisation: which op did the pass mis-transform?
# ---------------------------------------------------------------------------------------------

CONE_MAX = 10


def _pure_simple(op) -> bool:
    return op.name.startswith("arith.") and not op.regions and len(op.results) >= 1


def cone_of(root):
    """Backward slice of pure region-free arith ops ending in `root` (at most CONE_MAX non-constant ops), in
    program order, plus the leaf values (everything else it reads)."""
    from xdsl.ir import Operation
    inc: dict = {}
    budget = [CONE_MAX]

    def visit(op):
        if id(op) in inc:
            return
        inc[id(op)] = op
        for v in op.operands:
            o = v.owner
            if isinstance(o, Operation) and _pure_simple(o) and id(o) not in inc:
                if o.name == "arith.constant":
                    visit(o)
                elif budget[0] > 0:
                    budget[0] -= 1
                    visit(o)
    visit(root)
    ops, leaves = [], []

    def emit(op):
        if id(op) in done:
            return
        done.add(id(op))
        for v in op.operands:
            o = v.owner
            if isinstance(o, Operation) and id(o) in inc:
                emit(o)
            elif not any(v is x for x in leaves):
                leaves.append(v)
        ops.append(op)
    done: set = set()
    emit(root)
    return ops, leaves


def _const_op(v, ty):
    """arith.constant of refsem value v, or None if it cannot be one (POISON, non-scalar type)."""
    from xdsl.dialects import arith, builtin as b
    t = refsem.type_name(ty)
    if v is refsem.POISON:
        return None
    if _is_f(t) and isinstance(v, float):
        return arith.ConstantOp(b.FloatAttr(v, ty))
    if (t == "index" or (t[:1] == "i" and t[1:].isdigit())) and isinstance(v, int):
        return arith.ConstantOp(b.IntegerAttr(refsem.to_signed(v, refsem.int_width(t, 64)), ty))
    return None


def build_cone(root, leaf_values=None):
    """Function `cone` computing `root` from its backward slice.  The leaves are the function arguments, or --
    with leaf_values (one refsem value per leaf, e.g. the values observed in the failing run) -- constants: the
    closed form lets a pass fold the slice the way it did after its own earlier rewrites made the operands
    constant."""
    from xdsl.dialects import builtin as b, func
    from xdsl.ir import Block, Region
    ops, leaves = cone_of(root)
    mapper = {}
    pre = []
    if leaf_values is None:
        blk = Block(arg_types=[v.type for v in leaves])
        for v, a in zip(leaves, blk.args):
            mapper[v] = a
        arg_tys = [v.type for v in leaves]
    else:
        blk = Block()
        for v, x in zip(leaves, leaf_values):
            c = _const_op(x, v.type)
            if c is None:
                return None
            pre.append(c)
            mapper[v] = c.results[0]
        arg_tys = []
    new = []
    for o in ops:
        missing = [v for v in o.operands if v not in mapper]
        if missing:
            return None
        new.append(_clone(o, mapper))
    blk.add_ops(pre + new)
    blk.add_op(func.ReturnOp(*new[-1].results))
    f = func.FuncOp("cone", (arg_tys, [r.type for r in root.results]), Region(blk))
    m = b.ModuleOp([f])
    m.verify()
    return m, ([] if leaf_values is not None else leaves), new[-1]


def _leaf_inputs(leaves, observed):
    """Input tuples for a cone: the values observed in the failing run, then boundary combinations."""
    tys = [refsem.type_name(v.type) for v in leaves]
    if any(not (_is_f(t) or t == "index" or (t[:1] == "i" and t[1:].isdigit())) for t in tys):
        return None
    out = []
    for tup in observed[:8]:
        if all(x is not refsem.POISON for x in tup):
            out.append(tuple(tup))
    if not leaves:
        return [()]
    doms = []
    for t in tys:
        if _is_f(t):
            d = [refsem.bits_to_float(x, t) for x in progen.boundary_float_bits(t)][:14]
        else:
            w = refsem.int_width(t, 64)
            d = [x & ((1 << w) - 1) for x in progen.boundary_ints(t, 64)][:10]
        doms.append(d)
    for k, tup in enumerate(itertools.product(*doms)):
        if k >= 200:
            break
        out.append(tup)
    return out


def localise(pass_name, module, fname, vec):
    """First pure op (program order) whose cone the pass already mis-transforms.  Returns None or a dict."""
    trace: list = []
    if fname is not None:
        refsem.run_function(module, fname, vec, index_bits=64, fuel=FUEL, trace=trace)
    seen_vals: dict = {}
    for op, vals in trace:
        for v, x in zip(op.operands, vals):
            seen_vals.setdefault(id(v), []).append(x)
    for op in module.walk():
        if not _pure_simple(op) or op.name == "arith.constant":
            continue
        _, leaves0 = cone_of(op)
        obs_lists = [seen_vals.get(id(v), []) for v in leaves0]
        observed = [tuple(t) for t in zip(*obs_lists)] if leaves0 and all(obs_lists) else []
        variants = [None] + [tup for tup in observed[:3]]
        for leaf_values in variants:
            built = build_cone(op, leaf_values)
            if built is None:
                continue
            cm, leaves, croot = built
            inputs = _leaf_inputs(leaves, observed if leaf_values is None else [])
            if inputs is None:
                continue
            after = cm.clone()
            try:
                if apply_pass(pass_name, after) is not None:
                    continue
                after.verify()
            except PassTimeout:
                continue
            except Exception:       # the slice is only a diagnostic aid: a slice the pass rejects is skipped
                continue
            if canon(cm) == canon(after):
                continue
            for tup in inputs:
                tr: list = []
                rb = refsem.run_function(cm, "cone", tup, index_bits=64, fuel=2000, trace=tr)
                ra = refsem.run_function(after, "cone", tup, index_bits=64, fuel=2000)
                verdict, why = refsem.compare_results(rb, ra)
                if verdict != "differ":
                    continue
                rargs = [a for o, a in tr if o is croot]
                rargs = rargs[0] if rargs else ()
                in_tys = [refsem.type_name(v.type) for v in op.operands]
                ty = in_tys[0] if in_tys else refsem.type_name(op.results[0].type)
                return {"op": op.name, "pred": op_pred(op), "type": width_class(ty),
                        "value_class": value_class(op.name, in_tys, rargs, rb.values if rb.ok else ()),
                        "text": f"smallest mis-transformed slice, on inputs {tup!r}: {why}\n-- before:\n"
                                + progen.render(cm)[:1200] + "\n-- after " + pass_name + ":\n"
                                + progen.render(after)[:1200]}
    return None


def invalid_constant(module):
    """Op.verify() does not re-verify property attributes; a folded constant must be a valid attribute of its
    type (IntegerAttr range).  Returns None or (exception name, text)."""
    for op in module.walk():
        if op.name == "arith.constant":
            try:
                op.properties["value"].verify()
            except Exception as e:
                return type(e).__name__, str(e)[:200]
    return None


def _attr_sig(op):
    from vt.canon import attr_key
    return (op.name, tuple(sorted((k, attr_key(v)) for k, v in op.properties.items())),
            tuple(sorted((k, attr_key(v)) for k, v in op.attributes.items())),
            tuple(attr_key(r.type) for r in op.results))


def merged_pair(pname, cur):
    """Fallback localisation for value-merging rewrites (CSE): re-run the pass on a clone of the stage input and
    look for a removed op R whose result was replaced, in a surviving user, by the same-numbered result of
    another op E of the same kind.  The first pair whose attributes differ bit-wise (e.g. 0.0 vs -0.0) is
    blamed with value_class 'attr_differs'; else the first pair of ops with memory effects ('identical')."""
    from xdsl.ir import Operation
    w = _clone(cur)
    ops = list(w.walk())
    sigs = {id(o): _attr_sig(o) for o in ops}
    uses = []
    for o in ops:
        for ri, res in enumerate(o.results):
            for u in res.uses:
                uses.append((o, ri, u.operation, u.index))
    if apply_pass(pname, w) is not None:
        return None
    alive = {id(o) for o in w.walk()}
    pairs = []
    for o, ri, user, idx in uses:
        if id(o) in alive or id(user) not in alive:
            continue
        nv = user.operands[idx]
        e = nv.owner
        if isinstance(e, Operation) and e.name == o.name and getattr(nv, "index", None) == ri and id(e) in sigs:
            pairs.append((o, e))
    for o, e in pairs:
        if sigs[id(o)] != sigs[id(e)]:
            return o, "attr_differs"
    for o, e in pairs:
        if not o.name.startswith("arith."):
            return o, "identical"
    return None


def removed_summary(removed):
    """(op kinds, type class) of the ops a pass removed, most telling kinds first: control-flow / effect ops if
    any were removed (then arith ops are noise), else the arith ops; constants only count when nothing else
    was removed."""
    special = sorted({o.name for o in removed if not o.name.startswith("arith.")
                      and o.name not in ("scf.yield", "scf.condition")})
    if special:
        return ("+".join(special) if len(special) <= 3 else "many"), "-"
    names = sorted({o.name for o in removed if o.name != "arith.constant"})
    pool = [o for o in removed if o.name != "arith.constant"]
    if not names:
        names = sorted({o.name for o in removed})
        pool = list(removed)
    if not names:
        return "-", "-"
    tys = sorted({width_class(refsem.type_name(o.results[0].type)) for o in pool if o.results})
    ty = tys[0] if len(tys) == 1 else "-" if not tys else "mixed"
    return ("+".join(names) if len(names) <= 3 else "many"), ty


# ---------------------------------------------------------------------------------------------
# the oracle
# ---------------------------------------------------------------------------------------------

def stage_input(subj: Subject, pipe, stage):
    """Re-create the input of stage `stage` (passes are deterministic): a fresh clone run through the prefix."""
    cur = _clone(subj.module)
    for p in pipe[:stage]:
        if apply_pass(p, cur) is not None:
            raise RuntimeError("pipeline prefix is not reproducible")
    return cur


def check_pipeline(h, recipe, subj: Subject, base_results, pipe, label):
    """Run one pipeline over a clone of the subject, checking every stage.  Returns (changed, compared).
    The pass outputs themselves are never cloned (only verified, canonicalised and evaluated)."""
    work, cur_res = subj.module.clone(), base_results
    changed_any, compared = False, 0
    one = dict(recipe, pipes=[list(pipe)])
    for stage, pname in enumerate(pipe):
        c_before, ops_before = canon(work), list(work.walk())
        try:
            err = apply_pass(pname, work)
        except PassTimeout:
            h.inconclusive("pass_timeout:" + pname)
            if not h._shrinking and len(h.notes) < 3:
                import json
                h.notes.append(f"{pname} exceeded {PASS_CPU_S:.0f} s CPU on recipe "
                               + json.dumps(one, sort_keys=True)[:3000])
            return changed_any, compared
        if err is not None:
            h.mismatch({"check": "pass_raises", "pass": pname, "exc": type(err).__name__, "site": exc_site(err)},
                       one, f"{pname} (stage {stage} of {pipe}) raised {err!r:.300} on a valid program:\n"
                       + progen.render(stage_input(subj, pipe, stage))[:2500])
            return changed_any, compared
        alive = {id(o) for o in work.walk()}
        removed = [o for o in ops_before if id(o) not in alive]      # (ops_before keeps them alive: ids are unique)
        gone, gone_ty = removed_summary(removed)
        try:
            work.verify()
        except Exception as e:
            h.mismatch({"check": "verify_fails", "pass": pname, "op": gone, "exc": type(e).__name__},
                       one, f"output of {pname} (stage {stage} of {pipe}) does not verify: {str(e)[-400:]}\n"
                       + progen.render(stage_input(subj, pipe, stage))[:2000])
            return changed_any, compared
        if c_before == canon(work):
            h.count("unchanged:" + pname)
            continue
        badc = invalid_constant(work)
        if badc is not None:
            h.mismatch({"check": "verify_fails", "pass": pname, "op": "arith.constant", "exc": badc[0]},
                       one, f"output of {pname} (stage {stage} of {pipe}) contains a constant whose attribute does "
                       f"not verify: {badc[1]}\n" + progen.render(stage_input(subj, pipe, stage))[:2000])
            return changed_any, compared
        changed_any = True
        h.count("changed:" + pname)
        try:
            nxt_res = subj.evaluate(work, fuel=FUEL * 4)
        except (KeyError, refsem.UnsupportedOp, AssertionError, IndexError) as e:
            # the input ran on the reference semantics, the output does not: the pass produced IR that
            # verifies but is ill-formed (typically a use of a value that is not in scope / not yet defined)
            h.mismatch({"check": "malformed_output", "pass": pname, "op": gone, "exc": type(e).__name__},
                       one, f"output of {pname} (stage {stage} of {pipe}) cannot be executed by the reference "
                       f"semantics although its input could: {e!r:.300}\n"
                       + progen.render(stage_input(subj, pipe, stage))[:2000])
            return changed_any, compared
        bad = None
        for i, (rb, ra) in enumerate(zip(cur_res, nxt_res)):
            verdict, why = refsem.compare_results(rb, ra)
            if verdict == "excluded":
                h.exclude("poison_ub_or_fuel")
                continue
            compared += 1
            if verdict == "differ" and bad is None:
                bad = (i, why)
        if bad is not None:
            i, why = bad
            kind = "effects_changed" if why.startswith("effect") else "result_changed"
            if subj.flat and why.startswith("effect") and "'test.op'" in why and "in length" not in why:
                kind = "result_changed"      # the sink of the flat form stands for the function results
            cur = stage_input(subj, pipe, stage)
            loc = None
            try:
                if subj.flat:
                    loc = localise(pname, wrap_flat(cur), "flat", ())
                else:
                    loc = localise(pname, cur, subj.fname, subj.vecs[i])
            except Unclonable:
                h.count("localise_skipped_unclonable")
            if loc is not None:
                sig = {"check": kind, "pass": pname, "op": loc["op"], "pred": loc["pred"], "type": loc["type"],
                       "value_class": loc["value_class"]}
                text = loc["text"]
            else:
                mp = None
                try:
                    mp = merged_pair(pname, cur)
                except Unclonable:
                    h.count("localise_skipped_unclonable")
                if mp is not None:
                    mo, mclass = mp
                    sig = {"check": kind, "pass": pname, "op": "merged:" + mo.name, "pred": op_pred(mo),
                           "type": width_class(refsem.type_name(mo.results[0].type)), "value_class": mclass}
                    text = (f"{pname} replaced the result of one {mo.name} by that of another one "
                            + ("whose attributes differ bit-wise" if mclass == "attr_differs"
                               else "although they are not interchangeable here"))
                else:
                    sig = {"check": kind, "pass": pname, "op": "removed:" + gone, "pred": "-",
                           "type": gone_ty, "value_class": "-"}
                    text = "no single pure-op slice is mis-transformed on its own"
            inp = "()" if subj.flat else repr(subj.vecs[i])
            h.mismatch(sig, one, f"{pname} (stage {stage} of {pipe}) changed the behaviour on input {inp}: {why}\n"
                       f"{text}\n-- program before the stage:\n" + progen.render(cur)[:2500])
            return changed_any, compared
        cur_res = nxt_res
    return changed_any, compared


def run_case(h, recipe, label):
    _init()
    pipes = [[p for p in pipe if isinstance(p, str)] for pipe in (recipe.get("pipes") or []) if isinstance(pipe, list)]
    for pipe in pipes:
        for p in pipe:
            if p not in PASSES:
                raise ValueError(f"unknown pass {p!r}")
    flat = bool(recipe.get("flat"))
    prog = recipe
    if flat:
        frs = [f for f in (recipe.get("funcs") or []) if isinstance(f, dict)]
        if not frs:
            raise progen.RecipeError("recipe without functions")
        last = {k: v for k, v in frs[-1].items() if k not in ("blocks", "term")}
        prog = dict(recipe, funcs=frs[:-1] + [last])
    module = progen.build(prog)
    fname, fr = progen.entry(prog)
    nin = recipe.get("nin")
    nin = min(max(nin, 1), 24) if isinstance(nin, int) and not isinstance(nin, bool) else NINPUTS
    vecs = progen.input_vectors(fr, nin, recipe.get("inputs"), 64)
    if flat:
        module = make_flat(module, fname, vecs[0])
        vecs = [()]
    subj = Subject(module, fname, vecs, flat)
    base = None
    for pipe in pipes:
        if not pipe:
            continue
        if base is None:
            base = subj.evaluate(module)
        changed, compared = check_pipeline(h, recipe, subj, base, pipe, label)
        nt = changed and compared > 0
        plab = pipe[0] if len(pipe) == 1 else "pipeline"
        want = nt and not h._shrinking and len(h.samples) < 6
        h.case(dict(recipe, pipes=[pipe]), nt, label=f"{label}:{plab}",
               sample={"pipes": [pipe], "flat": int(flat), "ir": progen.render(module)[:1500]} if want else None)


# ---------------------------------------------------------------------------------------------
# generators
# ---------------------------------------------------------------------------------------------

SINGLES = [[p] for p in PASSES]
_pipe = st.lists(st.sampled_from(PASSES), min_size=2, max_size=3)


def _with_pipes(prog_strategy, flat=0, singles=SINGLES):
    return st.builds(lambda r, extra: dict(r, kind="prog", flat=flat, pipes=[list(p) for p in singles] + [extra]),
                     prog_strategy, _pipe)


def campaign(name):
    base = dict(effects=["call", "print", "memref"], affine=False, unknown_ops=False, max_funcs=2, n_inputs=NINPUTS,
                index_bits=64, size=10)
    if name == "general":
        return _with_pipes(progen.program_recipes(base))
    if name == "flags":
        return _with_pipes(progen.program_recipes(base, overflow_flags=True, float_types=[], effects=["memref"]))
    if name == "const":
        return _with_pipes(progen.program_recipes(base, max_args=0, max_funcs=1, effects=["memref", "print"],
                                                  size=12))
    if name == "flat":
        return _with_pipes(progen.program_recipes(base, max_args=2, max_funcs=1, control=["scf_if", "scf_for"],
                                                  effects=["print"], size=10),
                           flat=1, singles=[["test-constant-folding"], ["test-specialised-constant-folding"],
                                            ["canonicalize"], ["constant-fold-interp"], ["cse"]])
    if name == "memory":
        return _with_pipes(_memory_programs(base), singles=[["cse"], ["canonicalize"], ["constant-fold-interp"]])
    raise ValueError(name)


def _memory_programs(base):
    """General programs whose last function additionally ends in  alloc; load m[k]; <between>; load m[k]  with
    both loaded values returned: duplicate loads with (or without) a memory effect in between."""
    vt = ["i1", "i8", "i16", "i32", "i64", "index", "f32", "f64"]

    def build(r, t, n, k, k2, fill, mid):
        ld = {"op": "load", "t": t, "n": n, "m": 0, "i": {"c": k}}
        # the stored value is a constant that differs from the initial cell contents (value refs: 0 = the first
        # load, 1 = this constant)
        bs = progen.boundary_float_bits(t) if _is_f(t) else progen.boundary_ints(t, 64)
        other = {"op": "const", "t": t, "v": bs[(fill + 1) % len(bs)]}
        st_same = {"op": "store", "t": t, "n": n, "m": 0, "i": {"c": k}, "v": 1}
        st_other = {"op": "store", "t": t, "n": n, "m": 0, "i": {"c": k2}, "v": 1}
        between = [[st_same], [st_other], [{"op": "call", "k": 0, "args": [], "res": []}],
                   [{"op": "if", "c": 0, "res": [], "then": [st_same], "ty": [], "else": [], "ey": []}], [],
                   [{"op": "for", "t": "index", "lb": {"c": 0}, "ub": {"c": 2}, "step": {"c": 1}, "iters": [],
                     "body": [st_same], "y": []}],
                   [{"op": "print", "k": 0, "args": [[t, 0]]}, st_same, st_other]][mid]
        funcs = [dict(f) for f in r["funcs"]]
        f = funcs[-1]
        f["body"] = (list(f.get("body") or []) + [other, {"op": "alloc", "t": t, "n": n, "v": fill}, ld] + between
                     + [dict(ld)])
        f["ret"] = [[t, 0], [t, 1]] + list(f.get("ret") or [])[:1]
        return dict(r, funcs=funcs)
    return st.builds(build, progen.program_recipes(base, size=6), st.sampled_from(vt), st.sampled_from([1, 2, 4]),
                     st.integers(0, 3), st.integers(0, 3), st.integers(0, 20), st.integers(0, 6))


# ---- deterministic fold table ---------------------------------------------------------------

INT_T = ["i1", "i8", "i16", "i32", "i64", "index"]
FLOAT_T = ["f32", "f64"]
TABLE_PIPES = [["canonicalize"], ["constant-fold-interp"], ["test-constant-folding"]]


def _int_dom(t, quick):
    bs = progen.boundary_ints(t, 64)
    return bs[:9] if quick else bs


def _float_dom(t, quick):
    bs = progen.boundary_float_bits(t)
    return bs[:12] if quick else bs


def _table_configs(quick):
    """(stmt template, operand types, result type, domain per operand) in a fixed order."""
    out = []
    names = [n for v in progen.INT_BIN.values() for n in v]
    for t in INT_T:
        d = _int_dom(t, quick)
        for op in names:
            if op == "addui_extended" and t == "index":
                continue
            out.append(({"op": op, "t": t, "safe": 0}, [t, t], t, [d, d]))
        for p in range(10):
            out.append(({"op": "cmpi", "t": t, "p": p}, [t, t], "i1", [d, d]))
        out.append(({"op": "select", "t": t}, ["i1", t, t], t, [[0, -1], d[:6], d[:6]]))
    plain = [t for t in INT_T if t != "index"]
    for f in plain:
        for t in plain:
            wf, wt = int(f[1:]), int(t[1:])
            if wf < wt:
                for op in ("extsi", "extui"):
                    out.append(({"op": op, "from": f, "to": t}, [f], t, [_int_dom(f, quick)]))
            elif wf > wt:
                out.append(({"op": "trunci", "from": f, "to": t}, [f], t, [_int_dom(f, quick)]))
    for t in plain:
        out.append(({"op": "index_cast", "from": t, "to": "index"}, [t], "index", [_int_dom(t, quick)]))
        out.append(({"op": "index_cast", "from": "index", "to": t}, ["index"], t, [_int_dom("index", quick)]))
    for t in FLOAT_T:
        d = _float_dom(t, quick)
        for op in progen.FLOAT_BIN:
            out.append(({"op": op, "t": t}, [t, t], t, [d, d]))
        for p in range(16):
            out.append(({"op": "cmpf", "t": t, "p": p}, [t, t], "i1", [d, d]))
        out.append(({"op": "negf", "t": t}, [t], t, [d]))
        out.append(({"op": "select", "t": t}, ["i1", t, t], t, [[0, -1], d[:6], d[:6]]))
        for it in ["i1", "i8", "i32", "i64"]:
            for op in ("sitofp", "uitofp"):
                out.append(({"op": op, "from": it, "to": t}, [it], t, [_int_dom(it, quick)]))
            for op in ("fptosi", "fptoui"):
                out.append(({"op": op, "from": t, "to": it}, [t], it, [d]))
        it = "i32" if t == "f32" else "i64"
        out.append(({"op": "bitcast", "from": t, "to": it}, [t], it, [d]))
        out.append(({"op": "bitcast", "from": it, "to": t}, [it], t, [d]))
    out.append(({"op": "extf", "from": "f32", "to": "f64"}, ["f32"], "f64", [_float_dom("f32", quick)]))
    out.append(({"op": "truncf", "from": "f64", "to": "f32"}, ["f64"], "f32", [_float_dom("f64", quick)]))
    return out


TABLE_CHUNK = 24


def table_recipe(tmpl, in_tys, out_ty, tuples, pipes, flat=0, arg_tys=(), nin=None):
    """A progen recipe of one function: for every operand tuple its constants followed by the op; all results
    are returned.  An operand is a constant value, or ("arg", i) for function argument i.  Every operand is
    referenced explicitly (refs are computed from the visible-value lists)."""
    body = []
    vis: dict = {}          # type -> number of visible values so far
    argpos = []
    for t in arg_tys:
        argpos.append((t, vis.get(t, 0)))
        vis[t] = vis.get(t, 0) + 1
    where = []              # (type, position among values of that type) of every op result
    for tup in tuples:
        pos = []
        for v, t in zip(tup, in_tys):
            if isinstance(v, (tuple, list)):
                pos.append(argpos[v[1]])
                continue
            body.append({"op": "const", "t": t, "v": v})
            pos.append((t, vis.get(t, 0)))
            vis[t] = vis.get(t, 0) + 1
        s = dict(tmpl)
        keys = {1: ["a"], 2: ["a", "b"], 3: ["c", "a", "b"]}[len(in_tys)]
        for k, (t, p) in zip(keys, pos):
            s[k] = vis[t] - 1 - p
        body.append(s)
        nres = 2 if tmpl["op"] in ("addui_extended", "mulsi_extended", "mului_extended") else 1
        for j in range(nres):
            rt = out_ty if not (tmpl["op"] == "addui_extended" and j == 1) else "i1"
            where.append((rt, vis.get(rt, 0)))
            vis[rt] = vis.get(rt, 0) + 1
    ret = [[t, vis[t] - 1 - p] for t, p in where]
    r = {"kind": "prog", "flat": flat, "pipes": [list(p) for p in pipes], "inputs": [0], "ib": 64,
         "funcs": [{"args": list(arg_tys), "body": body, "ret": ret}]}
    if nin:
        r["nin"] = nin
        r["inputs"] = [4 * j for j in range(nin * max(len(arg_tys), 1))]     # boundary value j of each type
    return r


def partial_table(h):
    """One function per (integer op, type): the op applied to the argument x and each boundary constant c, both
    ways round, and to (x, x); select with an argument condition and constant values.  These are the shapes of
    the unit / zero / equal-operand / select canonicalization patterns and folders.  12 boundary inputs."""
    names = [n for v in progen.INT_BIN.values() for n in v]
    divs = set(progen.INT_BIN["div"])
    cfgs = []
    for t in INT_T:
        d = _int_dom(t, h.quick)
        w = refsem.int_width(t, 64)
        for op in names:
            if op == "addui_extended" and t == "index":
                continue
            # a constant zero divisor makes every run UB: nothing could be compared
            cs = [c for c in d if not (op in divs and c & ((1 << w) - 1) == 0)]
            tuples = [(("arg", 0), c) for c in cs] + [(c, ("arg", 0)) for c in d] + [(("arg", 0), ("arg", 0))]
            cfgs.append(({"op": op, "t": t, "safe": 0}, [t, t], t, tuples, [t]))
        for p in range(10):
            tuples = [(("arg", 0), c) for c in d] + [(c, ("arg", 0)) for c in d] + [(("arg", 0), ("arg", 0))]
            cfgs.append(({"op": "cmpi", "t": t, "p": p}, [t, t], "i1", tuples, [t]))
    for t in INT_T + FLOAT_T:
        d = (_float_dom(t, h.quick) if _is_f(t) else _int_dom(t, h.quick))[:5]
        tuples = [(("arg", 0), a, b) for a in d for b in d]
        if not _is_f(t):
            tuples += [(("arg", 0), ("arg", 1), c) for c in d] + [(("arg", 0), c, ("arg", 1)) for c in d]
        tuples += [(("arg", 0), ("arg", 1), ("arg", 1))]
        cfgs.append(({"op": "select", "t": t}, ["i1", t, t], t, tuples, ["i1", t]))
    pipes = [["canonicalize"], ["constant-fold-interp"], ["cse", "canonicalize"]]
    for i, (tmpl, in_tys, out_ty, tuples, arg_tys) in enumerate(cfgs):
        if i % h.nshards != h.shard:
            continue
        run_case(h, table_recipe(tmpl, in_tys, out_ty, tuples, pipes, arg_tys=arg_tys, nin=12), "table_partial")
        h.count("table_partial_config")


def _tuple_defined(tmpl, in_tys, out_ty, tup):
    """Does refsem give the op a defined (non-POISON, non-UB) result on these constants?"""
    args = []
    for v, t in zip(tup, in_tys):
        if _is_f(t):
            args.append(refsem.bits_to_float(v, t))
        else:
            args.append(v & ((1 << refsem.int_width(t, 64)) - 1))
    op = tmpl["op"]
    attrs = {}
    if op in ("cmpi", "cmpf"):
        attrs = {"pred": tmpl["p"]}
    outs = [out_ty]
    if op == "addui_extended":
        outs = [out_ty, "i1"]
    elif op in ("mulsi_extended", "mului_extended"):
        outs = [out_ty, out_ty]
    try:
        r = refsem.arith_eval("arith." + op, tuple(args), list(in_tys), outs, attrs, 64)
    except refsem.UnsupportedOp:
        return False
    return not any(x is refsem.POISON or isinstance(x, str) for x in r)


class _Probe:
    """Records the harness calls of one run_case so that a table group with a NEW mismatch can be re-run one
    operand tuple at a time (the reported recipe is then minimal); otherwise the calls are forwarded."""

    def __init__(self, h):
        self.h, self.calls, self.new_mismatch = h, [], False
        self._shrinking, self.samples = h._shrinking, h.samples

    def _rec(self, name, *a, **k):
        self.calls.append((name, a, k))

    def case(self, *a, **k):
        self._rec("case", *a, **k)

    def count(self, *a, **k):
        self._rec("count", *a, **k)

    def exclude(self, *a, **k):
        self._rec("exclude", *a, **k)

    def discard(self, *a, **k):
        self._rec("discard", *a, **k)

    def inconclusive(self, *a, **k):
        self._rec("inconclusive", *a, **k)

    def mismatch(self, sig, recipe, detail=""):
        if self.h.known_for({k: str(v) for k, v in sig.items()}) is None:
            self.new_mismatch = True
        self._rec("mismatch", sig, recipe, detail)

    def flush(self):
        for name, a, k in self.calls:
            getattr(self.h, name)(*a, **k)


def run_table_group(h, tmpl, in_tys, out_ty, tuples, pipes, lab, flat=0):
    probe = _Probe(h)
    run_case(probe, table_recipe(tmpl, in_tys, out_ty, tuples, pipes, flat), lab)
    if not probe.new_mismatch or len(tuples) == 1:
        probe.flush()
        return
    for tup in tuples:
        run_case(h, table_recipe(tmpl, in_tys, out_ty, [tup], pipes, flat), lab)


def fold_table(h):
    cfgs = _table_configs(h.quick)
    for i, (tmpl, in_tys, out_ty, doms) in enumerate(cfgs):
        if i % h.nshards != h.shard:
            continue
        good, poison = [], []
        for tup in itertools.product(*doms):
            (good if _tuple_defined(tmpl, in_tys, out_ty, tup) else poison).append(tup)
        h.exclude("table_poison_tuple", len(poison))
        pipes = TABLE_PIPES if tmpl["op"] == "addi" else TABLE_PIPES[:2]
        groups = [(good[k:k + TABLE_CHUNK], "table") for k in range(0, len(good), TABLE_CHUNK)]
        # tuples whose result MLIR leaves undefined: only "does not raise / verifies" can be checked
        groups += [(poison[k:k + TABLE_CHUNK], "table_poison") for k in range(0, min(len(poison), 2 * TABLE_CHUNK),
                                                                              TABLE_CHUNK)]
        for tuples, lab in groups:
            if not tuples:
                continue
            run_table_group(h, tmpl, in_tys, out_ty, tuples, pipes, lab)
            if tmpl["op"] == "addi" and lab == "table":
                run_table_group(h, tmpl, in_tys, out_ty, tuples,
                                [["test-specialised-constant-folding"], ["test-constant-folding"]], "table_flat", flat=1)
        h.count("table_config")


# ---------------------------------------------------------------------------------------------
# entry points
# ---------------------------------------------------------------------------------------------

def replay(h, recipe):
    _init()
    run_case(h, recipe, "replay")


def checks(h):
    _init()
    fold_table(h)
    partial_table(h)
    for salt, (name, q, t) in enumerate([("general", 120, 5000), ("const", 80, 3500), ("flat", 45, 2000),
                                         ("flags", 25, 1200), ("memory", 30, 1300)]):
        h.hyp(name, campaign(name), lambda r, name=name: run_case(h, r, name), h.scale(q, t), 1 + salt)
