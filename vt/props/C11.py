"""C11 — The greedy rewrite driver reaches a fixpoint and observes every IR change.

Recipe: {"mod": <irgen recipe>, "patterns": [idx...], "cfg": [reverse, regions_first, non_recursive, dce],
         "order": [int...] | None}
`order` perturbs the worklist: walker._worklist is replaced by a model-correct set-with-order whose
pop picks element order[i] % len.  None keeps the real Worklist.
"""
from __future__ import annotations

from hypothesis import strategies as st

from vt import canon as C
from vt import invariants, irgen

ID = "C11"
SHARDS = {"quick": 16, "thorough": 16}
RULE = ("irgen modules x subsets of a library of 12 terminating patterns that mutate only through the "
        "PatternRewriter API (erase-if-unused, replace-by-operand, replace-by-new-op with decreasing "
        "counter, insert-before once, modify in place + notify, replace_all_uses_with, "
        "replace_uses_with_if, inline block, erase unused block argument, replace_value_with_new_type, erase a neighbouring op, insert a producer/consumer pair) "
        "wrapped in GreedyRewritePatternApplier (dce on/off) x every walker configuration "
        "(walk_reverse, walk_regions_first, apply_recursively) x the real Worklist or a perturbed pop "
        "order. Oracles: (1) after a recursive walk no pattern performs an action on any remaining op; "
        "(2) canonical form changed => rewrite_region returned True; (3) every pattern invocation gets an "
        "op attached inside the walked region; (4) per invocation, identity-snapshot diff: new ops were "
        "reported inserted, vanished ops removed (or nested in a removed op), ops with changed "
        "operands/attributes reported modified (or replaced users), replace() reported a replacement; "
        "(5) snapshot differs => has_done_action; (6) C01 invariants afterwards. Non-trivial: >=2 "
        "different patterns fired.")
ASSUMPTIONS = ["the probe patterns only mutate through the rewriter", "vt.canon / vt.invariants are correct"]

MAX_INVOCATIONS = 4000


class Budget(Exception):
    pass


# ---- pattern library ------------------------------------------------------------------------------
def _lib():
    from xdsl.dialects.builtin import IntegerAttr, UnitAttr, i1, i32
    from xdsl.dialects.test import TestOp, TestPureOp
    from xdsl.pattern_rewriter import RewritePattern
    from xdsl.rewriter import InsertPoint

    class EraseUnused(RewritePattern):
        def match_and_rewrite(self, op, rw):
            if op.name == "test.pureop" and not op.regions and all(r.first_use is None for r in op.results):
                rw.erase(op)
                return ("erase", op)

    class ReplaceByOperand(RewritePattern):
        def match_and_rewrite(self, op, rw):
            if op.name == "test.op" and len(op.results) == 1 and len(op.operands) >= 1 and not op.regions \
                    and op.operands[0] is not op.results[0]:
                rw.replace(op, [], [op.operands[0]])
                return ("replace", op)

    class ReplaceByNew(RewritePattern):
        def match_and_rewrite(self, op, rw):
            a = op.attributes.get("a")
            if op.name in ("test.op", "test.pureop") and isinstance(a, IntegerAttr) and 0 <= a.value.data < 3 \
                    and not op.regions:
                attrs = dict(op.attributes)
                attrs["a"] = IntegerAttr(a.value.data + 1, a.type)
                new = type(op).create(operands=list(op.operands), result_types=[r.type for r in op.results],
                                      attributes=attrs, properties=dict(op.properties))
                rw.replace(op, new)
                return ("replace", op)

    class InsertOnce(RewritePattern):
        def match_and_rewrite(self, op, rw):
            if op.name == "test.op" and "seen" not in op.attributes and "value" in op.attributes:
                new = TestPureOp.create(result_types=[i32], attributes={"seen": UnitAttr()})
                rw.insert(new, InsertPoint.before(op))
                op.attributes["seen"] = UnitAttr()
                rw.notify_op_modified(op)
                return ("insert", op)

    class ModifyInPlace(RewritePattern):
        def match_and_rewrite(self, op, rw):
            if "b" in op.attributes and op.name != "builtin.module":
                del op.attributes["b"]
                rw.notify_op_modified(op)
                return ("modify", op)

    class Rauw(RewritePattern):
        def match_and_rewrite(self, op, rw):
            if op.name == "test.pureop" and len(op.results) >= 2 and op.results[1].first_use is not None:
                rw.replace_all_uses_with(op.results[1], op.results[0])
                return ("rauw", op)

    class Ruwi(RewritePattern):
        def match_and_rewrite(self, op, rw):
            if op.name.startswith("builtin.unregistered") or op.name == "builtin.unregistered":
                if len(op.results) >= 2 and any(u.index % 2 == 0 for u in op.results[-1].uses):
                    rw.replace_uses_with_if(op.results[-1], op.results[0], lambda u: u.index % 2 == 0)
                    return ("ruwi", op)

    class InlineRegion(RewritePattern):
        def match_and_rewrite(self, op, rw):
            if op.name == "test.op" and len(op.regions) == 1 and len(op.regions[0].blocks) == 1 \
                    and all(r.first_use is None for r in op.results):
                blk = op.regions[0].blocks[0]
                if blk.args and len(op.operands) == 0:
                    return None
                term = blk.last_op
                if term is not None and term.name == "test.termop" and not term.results:
                    rw.erase(term)
                argv = [op.operands[i % len(op.operands)] for i in range(len(blk.args))]
                rw.inline_block(blk, InsertPoint.before(op), argv)
                rw.erase(op)
                return ("inline", op)

    class EraseBlockArg(RewritePattern):
        def match_and_rewrite(self, op, rw):
            if op.name in ("test.op", "test.pureop") and op.regions:
                for rg in op.regions:
                    for bl in rg.blocks:
                        for ar in bl.args:
                            if ar.first_use is None:
                                rw.erase_block_argument(ar)
                                return ("erase_arg", op)

    class NewType(RewritePattern):
        def match_and_rewrite(self, op, rw):
            if op.name == "test.pureop":
                for r in op.results:
                    if r.type == i1:
                        rw.replace_value_with_new_type(r, i32)
                        return ("new_type", op)

    class EraseNeighbour(RewritePattern):
        """Erases an op other than the matched one (the next op, if it is an unused pure leaf)."""
        def match_and_rewrite(self, op, rw):
            nxt = op.next_op
            if op.name == "test.op" and nxt is not None and nxt.name == "test.pureop" and not nxt.regions \
                    and all(r.first_use is None for r in nxt.results):
                rw.erase(nxt)
                return ("erase_other", op)

    class InsertPair(RewritePattern):
        """Inserts a producer/consumer pair once; the consumer is a pure unused leaf (erasable)."""
        def match_and_rewrite(self, op, rw):
            if op.name == "builtin.unregistered" and "paired" not in op.attributes and op.parent is not None:
                a = TestPureOp.create(result_types=[i32], attributes={"seen": UnitAttr()})
                b = TestPureOp.create(operands=[a.results[0]], result_types=[i32], attributes={"seen": UnitAttr()})
                rw.insert([a, b], InsertPoint.before(op))
                op.attributes["paired"] = UnitAttr()
                rw.notify_op_modified(op)
                return ("insert", op)

    return [EraseUnused, ReplaceByOperand, ReplaceByNew, InsertOnce, ModifyInPlace, Rauw, Ruwi,
            InlineRegion, EraseBlockArg, NewType, EraseNeighbour, InsertPair]


PATTERN_NAMES = ["erase_unused", "replace_by_operand", "replace_by_new", "insert_once", "modify_in_place",
                 "rauw", "ruwi", "inline_region", "erase_block_arg", "new_type", "erase_neighbour", "insert_pair"]


# ---- perturbed worklist (model-correct: a set with removal; pop order chosen by the recipe) ---------
class PerturbedWorklist:
    def __init__(self, order):
        self.items = []
        self.order = order or [0]
        self.i = 0

    def __bool__(self):
        return bool(self.items)

    def push(self, item):
        if not any(x is item for x in self.items):
            self.items.append(item)

    def pop(self):
        if not self.items:
            raise IndexError("pop from empty worklist")
        k = self.order[self.i % len(self.order)] % len(self.items)
        self.i += 1
        return self.items.pop(len(self.items) - 1 - k)

    def remove(self, item):
        self.items = [x for x in self.items if x is not item]


# ---- snapshot ---------------------------------------------------------------------------------------
def snapshot(module):
    snap = {}
    for o in module.walk():
        snap[id(o)] = (o, tuple(id(v) for v in o.operands), id(o.parent) if o.parent is not None else None,
                       tuple(sorted((k, id(v)) for k, v in o.attributes.items())),
                       tuple(id(r) for r in o.results), tuple(id(r.type) for r in o.results),
                       tuple(id(s) for s in o.successors))
    return snap


def parent_op_map(module):
    pm = {}
    for o in module.walk():
        for rg in o.regions:
            for bl in rg.blocks:
                for c in bl.ops:
                    pm[id(c)] = id(o)
    return pm


def run(h, r):
    from xdsl.pattern_rewriter import (GreedyRewritePatternApplier, PatternRewriter, PatternRewriterListener,
                                       PatternRewriteWalker, RewritePattern)
    lib = _lib()
    module = irgen.build(r["mod"]).module
    sel = sorted({p % len(lib) for p in r["patterns"]}) or [0]
    patterns = [lib[i]() for i in sel]
    reverse, regions_first, nonrec, dce = [bool(x) for x in r["cfg"]]
    recursive = not nonrec
    cfg = f"rev={int(reverse)},rf={int(regions_first)},rec={int(recursive)},dce={int(dce)}"
    state = {"events": None, "fired": set(), "n": 0, "problems": []}
    region = module.body

    def sigbase(kind, **kw):
        return {"check": kind, "perturbed": r.get("order") is not None, **kw}

    class Probe(RewritePattern):
        def __init__(self, inner, name):
            self.inner, self.name = inner, name

        def match_and_rewrite(self, op, rw):
            state["n"] += 1
            if state["n"] > MAX_INVOCATIONS:
                raise Budget()
            if op.parent is None or not region.is_ancestor(op):
                state["problems"].append((sigbase("invoked_on_detached_op", op=op.name),
                                          f"pattern {self.name} invoked on {op.name} which is not attached inside the walked region ({cfg})"))
                return
            before = snapshot(module)
            pm = parent_op_map(module)
            ev = state["events"] = {"ins": set(), "rem": set(), "mod": set(), "rep": set()}
            done_before = rw.has_done_action
            what = self.inner.match_and_rewrite(op, rw)
            after = snapshot(module)
            if what:
                state["fired"].add(self.name)
            changed = {k: v[1:] for k, v in before.items()} != {k: v[1:] for k, v in after.items()}
            if changed and not rw.has_done_action:
                state["problems"].append((sigbase("changed_without_action_flag", pattern=self.name),
                                          f"{self.name} mutated the IR but has_done_action is False"))
            for k in after.keys() - before.keys():
                o = after[k][0]
                anc, ok = o, False
                while anc is not None:
                    if id(anc) in ev["ins"]:
                        ok = True
                        break
                    anc = anc.parent_op()
                if not ok:
                    state["problems"].append((sigbase("insertion_not_reported", pattern=self.name),
                                              f"{self.name}: new op {o.name} not reported to the listener"))
            for k in before.keys() - after.keys():
                a, ok = k, False
                while a is not None:
                    if a in ev["rem"]:
                        ok = True
                        break
                    a = pm.get(a)
                if not ok:
                    state["problems"].append((sigbase("removal_not_reported", pattern=self.name),
                                              f"{self.name}: vanished op {before[k][0].name} not reported"))
            for k in before.keys() & after.keys():
                b, a = before[k], after[k]
                if (b[1], b[3], b[5]) != (a[1], a[3], a[5]) and k not in ev["mod"] and k not in ev["ins"]:
                    kind = "operands" if b[1] != a[1] else ("attributes" if b[3] != a[3] else "result_type")
                    state["problems"].append((sigbase("modification_not_reported", pattern=self.name, field=kind),
                                              f"{self.name}: {a[0].name} had its {kind} changed without a modification event"))
            if what and what[0] == "replace" and id(what[1]) not in ev["rep"]:
                state["problems"].append((sigbase("replacement_not_reported", pattern=self.name),
                                          f"{self.name}: replace() did not report a replacement"))
            state["events"] = None

    def on(kind):
        def handler(op, *rest):
            if state["events"] is not None:
                state["events"][kind].add(id(op))
        return handler

    listener = PatternRewriterListener(
        operation_insertion_handler=[on("ins")], operation_removal_handler=[on("rem")],
        operation_modification_handler=[on("mod")], operation_replacement_handler=[on("rep")])
    probes = [Probe(p, PATTERN_NAMES[i]) for p, i in zip(patterns, sel)]
    applier = GreedyRewritePatternApplier(probes, dce_enabled=dce)
    walker = PatternRewriteWalker(applier, walk_regions_first=regions_first, apply_recursively=recursive,
                                  walk_reverse=reverse, listener=listener)
    if r.get("order") is not None:
        walker._worklist = PerturbedWorklist(r["order"])
    c_before = C.canon(module)
    try:
        ret = walker.rewrite_module(module)
    except Budget:
        h.inconclusive("invocation_budget")
        h.case(r, False, label="budget")
        return
    except Exception as e:
        # the probe patterns never raise, so this is the driver tripping over its own state
        # (typically: it picked an op that was erased or detached from the region)
        from vt.props.C04 import exc_site
        h.case(r, True, label="driver_raised")
        h.mismatch(sigbase("driver_raised", exc=type(e).__name__, site=exc_site(e)), r,
                   f"rewrite_module raised {e!r:.300} ({cfg})")
        return
    c_after = C.canon(module)
    h.case(r, len(state["fired"]) >= 2, label="rec" if recursive else "nonrec",
           sample={"patterns": [PATTERN_NAMES[i] for i in sel], "cfg": cfg, "fired": sorted(state["fired"]),
                   "invocations": state["n"], "perturbed": r.get("order") is not None})
    for f in state["fired"]:
        h.count("fired_" + f)
    for sig, detail in state["problems"][:6]:
        h.mismatch(sig, r, detail)
    if c_before != c_after and not ret:
        h.mismatch(sigbase("changed_but_returned_false", cfg=cfg), r, "IR changed but rewrite_module returned False")
    errs = invariants.check([module])
    if errs:
        h.mismatch(sigbase("invariant", code=errs[0][0]), r, str(errs[:3]))
        return
    if recursive:
        # fixpoint: no pattern (incl. the applier's trivial-dead removal) acts on any remaining op
        state["events"] = None
        for o in list(module.walk()):
            if o is module or o.parent is None:
                continue
            before = C.canon(module)
            rw = PatternRewriter(o)
            applier2 = GreedyRewritePatternApplier([type(p)() for p in patterns], dce_enabled=dce)
            applier2.match_and_rewrite(o, rw)
            if rw.has_done_action or C.canon(module) != before:
                fired = [PATTERN_NAMES[i] for i in sel]
                h.mismatch(sigbase("not_a_fixpoint", cfg=cfg), r,
                           f"after the recursive walk returned, a pattern of {fired} (dce={dce}) still rewrites {o.name}")
                break


def replay(h, recipe):
    run(h, recipe)


def checks(h):
    nlib = len(PATTERN_NAMES)
    strat = st.fixed_dictionaries({
        "mod": irgen.module_recipes(depth=2, max_ops=4, max_blocks=2),
        "patterns": st.lists(st.integers(0, nlib - 1), min_size=2, max_size=6),
        "cfg": st.lists(st.integers(0, 1), min_size=4, max_size=4),
        "order": st.one_of(st.none(), st.lists(st.integers(0, 7), min_size=1, max_size=8)),
    })
    h.hyp("driver", strat, lambda r: run(h, r), h.scale(60, 600), 1)
