"""C08 — Attribute equality and hashing form a consistent value semantics.

Recipe kinds (all plain JSON):
  {"kind": "tuple", "pool": [R...], "idx": [i, j, k]}   three attributes, each built freshly from
        pool[idx[.]] (equal indices = same construction); R are vt.attrgen recipes
  {"kind": "near", "wrap": W, "a": R, "b": R}            the same context W around two payloads that
        differ only in a float payload / integer spelling
  {"kind": "paths", "r": R}                              one value rebuilt through other constructor paths
  {"kind": "text2", "t": T}                              one text parsed in two fresh contexts
        (unregistered attributes/types allowed); T is a text recipe (see render())
  {"kind": "opinfo", "a": O, "b": O}                     CSE keys (OperationInfo) of two test.op built
        from O = {"attrs": [[k, R]...], "props": [[k, R]...], "res": [R...]}
  {"kind": "corpus", "file": relpath}                    every chunk of a tests/**/*.mlir file parsed in
        two fresh contexts (all dialects): every attribute/property/type of every op, pairwise
Oracle (a, b, c range over the built values; key = vt.attrgen.attr_key):
  reflexive a == a, stable hash; symmetric; transitive; a == b => hash(a) == hash(b);
  key(a) == key(b) => a == b  (same parameters / same construction / same text);
  observably different => a != b, where observably different := key(a) != key(b) and
  (str(a) != str(b)  or  the keys differ only in float bit patterns).
"""
from __future__ import annotations

import copy

from hypothesis import strategies as st

from vt import attrgen as G
from vt.run import quiet

ID = "C08"
SHARDS = {"quick": 16, "thorough": 16}
RULE = ("triples of builtin attribute/type values from the C06 recipe strategy (indices into a small "
        "pool, so that pairs are frequently 'same construction'); near pairs = one context (plain, "
        "array, dictionary, tensor encoding, dense splat/list, dense array, complex dense) around "
        "two payloads that differ only in the sign of zero, NaN payload bits, one ulp, or the "
        "spelling of a wrapped signless integer; the same value rebuilt through alternative "
        "constructor paths (new(), deepcopy, re-parse of its text, width-as-int, IntAttr/FloatData "
        "wrappers, reordered dictionaries, raw-bytes dense constructors); the same text (incl. "
        "unregistered dialect attributes/types, opaque syntax, dense_resource) parsed in two fresh "
        "contexts; OperationInfo keys of two test.op built from attribute/property/result-type "
        "recipes; every attribute/property/type of the ops of the repository's .mlir corpus (dialect "
        "attributes), each chunk parsed in two fresh contexts, corresponding values compared and the "
        "distinct values compared pairwise (first 25 of a chunk; up to 8 per attribute class of a "
        "file), and each value compared with variants rebuilt through new() with one parameter "
        "replaced by another value its verifier accepts. Oracle: reflexive, symmetric, transitive, eq => equal hash, equal attr_key => "
        "equal, observably different (printer distinguishes them or float bits differ) => unequal. "
        "Non-trivial: the pair is equal by construction (same recipe / same text / alternative "
        "path) or differs only in a float payload.")
ASSUMPTIONS = [
    "attr_key (vt.attrgen) is a faithful structural identity (class qualname + payload, floats as "
    "bit patterns, dictionaries unordered)",
    "'observably different' is taken from the printer (str differs) or from float bit patterns, as "
    "the property names 0.0/-0.0 and NaN payloads explicitly",
    "the dynamic classes of unregistered attributes with the same name and kind denote the same "
    "attribute kind (they have the same qualname)",
]

ZERO_P, ZERO_N = 0, 1 << 63
QNAN, QNAN_N, NAN_P1, SNAN = 0x7FF8000000000000, 0xFFF8000000000000, 0x7FF8000020000000, \
    0x7FF4000000000000
ONE, ONE_UP = G.d2bits(1.0), G.d2bits(1.0) + (1 << 29)
CONFUSABLE = [ZERO_P, ZERO_N, QNAN, QNAN_N, NAN_P1, SNAN, ONE, ONE_UP, 0x7FF0000000000000,
              0xFFF0000000000000, 1, (1 << 63) | 1]


# ------------------------------------------------------------------------------------------------
# helpers
def cname(a) -> str:
    from xdsl.dialects.builtin import UnregisteredAttr
    if isinstance(a, UnregisteredAttr):
        return "UnregisteredAttr"
    return type(a).__name__


def kids(a):
    from xdsl.ir import Attribute, Data, ParametrizedAttribute
    if isinstance(a, ParametrizedAttribute):
        return list(a.parameters)
    if isinstance(a, Data):
        d = a.data
        if isinstance(d, (tuple, list)):
            return [x for x in d if isinstance(x, Attribute)]
        if hasattr(d, "items"):
            return [v for _, v in sorted(d.items(), key=lambda kv: str(kv[0]))
                    if isinstance(v, Attribute)]
    return []


def descend(a, b, failing, parent="-"):
    """Innermost pair of corresponding sub-attributes for which `failing` still holds."""
    ka, kb = kids(a), kids(b)
    if cname(a) == cname(b) and len(ka) == len(kb):
        for x, y in zip(ka, kb):
            try:
                bad = failing(x, y)
            except Exception:
                bad = False
            if bad:
                return descend(x, y, failing, cname(a))
    return a, b, parent


def pair_class(a, b) -> str:
    """Value class of a blamed pair."""
    from xdsl.dialects.builtin import FloatAttr, FloatData, UnregisteredAttr
    fa = a.value.data if isinstance(a, FloatAttr) else a.data if isinstance(a, FloatData) else None
    fb = b.value.data if isinstance(b, FloatAttr) else b.data if isinstance(b, FloatData) else None
    if fa is not None and fb is not None:
        ca, cb = G.float_class(fa), G.float_class(fb)
        same = G.d2bits(fa) == G.d2bits(fb)
        if ca == "nan" and cb == "nan":
            return "nan_same_bits" if same else "nan_diff_bits"
        if {ca, cb} == {"zero", "neg_zero"}:
            return "pos_neg_zero"
        if "nan" in (ca, cb):
            return "nan_vs_number"
        return "float_same_bits" if same else "float_other"
    if isinstance(a, UnregisteredAttr) or isinstance(b, UnregisteredAttr):
        return "unregistered"
    return "-"


def safe_str(a):
    """Printed form, or None when the printer cannot print the value (C06 reports printer
    failures; here they only remove the 'printer distinguishes them' evidence)."""
    try:
        return str(a)
    except RecursionError:
        raise
    except Exception:
        return None


def observably_different(a, b, ka, kb) -> bool:
    if ka == kb:
        return False
    sa, sb = safe_str(a), safe_str(b)
    if sa is not None and sb is not None and sa != sb:
        return True
    return G.strip_floats(ka) == G.strip_floats(kb) and G.float_leaves(ka) != G.float_leaves(kb)


class Rep:
    """Collects mismatches of one recipe."""

    def __init__(self, h, recipe):
        self.h, self.recipe = h, recipe

    def fail(self, check, a, b, failing, detail):
        x, y, parent = descend(a, b, failing)
        sig = {"check": check, "cls": cname(x), "value_class": pair_class(x, y), "parent": parent}
        self.h.mismatch(sig, self.recipe,
                        f"{check}: {detail}; innermost: {x!r:.150} vs {y!r:.150}")


def eq(a, b) -> bool:
    return bool(a == b)


def check_single(rep, a):
    if not eq(a, a):
        rep.fail("reflexive", a, a, lambda x, y: not eq(x, y), f"{a!r:.200} != itself")
    if hash(a) != hash(a):
        rep.fail("hash_stable", a, a, lambda x, y: hash(x) != hash(y), "hash changes between calls")


def check_pair(rep, a, b, same_construction: str | None = None):
    """All pairwise laws. same_construction: label when the pair is equal by construction."""
    ka, kb = G.attr_key(a), G.attr_key(b)
    e1, e2 = eq(a, b), eq(b, a)
    if e1 != e2:
        rep.fail("symmetric", a, b, lambda x, y: eq(x, y) != eq(y, x),
                 f"a == b is {e1} but b == a is {e2}")
    if e1 and hash(a) != hash(b):
        rep.fail("eq_hash", a, b, lambda x, y: eq(x, y) and hash(x) != hash(y),
                 f"equal values {safe_str(a)!r:.120} hash differently")
    if ka == kb and not e1:
        chk = (same_construction + "_unequal") if same_construction else "same_key_unequal"
        rep.fail(chk, a, b, lambda x, y: G.attr_key(x) == G.attr_key(y) and not eq(x, y),
                 f"structurally identical values {safe_str(a)!r:.120} compare unequal")
    if same_construction and ka != kb:
        rep.fail(same_construction + "_key", a, b,
                 lambda x, y: G.attr_key(x) != G.attr_key(y),
                 f"{safe_str(a)!r:.120} vs {safe_str(b)!r:.120}: different payloads")
    if e1 and observably_different(a, b, ka, kb):
        rep.fail("diff_equal", a, b,
                 lambda x, y: eq(x, y) and G.attr_key(x) != G.attr_key(y),
                 f"{safe_str(a)!r:.120} == {safe_str(b)!r:.120} although they differ observably")
    return ka == kb


def check_triple(rep, a, b, c):
    if eq(a, b) and eq(b, c) and not eq(a, c):
        rep.fail("transitive", a, c, lambda x, y: not eq(x, y), "a == b == c but a != c")


# ------------------------------------------------------------------------------------------------
# near pairs
def wrap(w, r):
    """Put payload recipe r (a float spec, or a full recipe) in context w."""
    kind = w[0]
    if kind == "plain":
        return r
    if kind == "array":
        return ["array", [["unit"], r]]
    if kind == "dict":
        return ["dict", [["k", r]]]
    if kind == "enc":
        return ["tensor", ["i", 32, 0], [2], r]
    if kind == "nested":
        return ["array", [["dict", [["a", ["array", [r]]]]]]]
    raise AssertionError(w)


def near_recipe(form, name, f):
    """A float payload `f` of float type `name` in container form `form`."""
    if form == "attr":
        return ["float", f, name]
    if form == "dense_splat":
        return ["dense", ["tensor", ["f", name], [2], None], [f], "splat"]
    if form == "dense_list":
        return ["dense", ["tensor", ["f", name], [2], None], [["d", ONE], f], "cycle"]
    if form == "dense_complex":
        return ["dense", ["tensor", ["complex", ["f", name]], [1], None], [[["d", ONE], f]], "cycle"]
    if form == "densearr":
        return ["densearr", ["f", name], [f, ["d", ONE]]]
    raise AssertionError(form)


def run_pairlike(h, recipe, ra, rb, same, label):
    rep = Rep(h, recipe)
    try:
        a, b = G.build(ra), G.build(rb)
    except G.Rejected as e:
        _discard(h, e.label)
        return
    check_single(rep, a)
    check_single(rep, b)
    keq = check_pair(rep, a, b, same)
    fl = G.strip_floats(G.attr_key(a)) == G.strip_floats(G.attr_key(b)) and not keq
    _case(h, recipe, bool(same) or keq or fl,
          label + (":same_key" if keq else ":float_only_diff" if fl else ":different"))


def _counting(h):
    return not getattr(h, "_shrinking", False)


def _case(h, recipe, nt, label):
    if _counting(h):
        h.case(recipe, nt, label=label)


def _discard(h, label):
    if _counting(h):
        h.discard(label)


# ------------------------------------------------------------------------------------------------
# alternative constructor paths
def alt_paths(r, a):
    """[(label, attribute)] built through other public paths, intended to denote the same value."""
    from xdsl.dialects import builtin as B
    from xdsl.ir import Data, ParametrizedAttribute
    from immutabledict import immutabledict
    out = [("rebuild", G.build(r)), ("deepcopy", copy.deepcopy(a))]
    if isinstance(a, ParametrizedAttribute):
        out.append(("new", type(a).new(a.parameters)))
    elif isinstance(a, Data):
        out.append(("new", type(a).new(a.data)))
    tag = r[0]
    if tag == "int":
        ty = G.build(r[2])
        out.append(("intattr", B.IntegerAttr(B.IntAttr(r[1]), ty)))
        out.append(("stored", B.IntegerAttr(a.value.data, ty)))
        if r[2][0] == "i" and r[2][2] == 0:
            w = r[2][1]
            out.append(("width_int", B.IntegerAttr(r[1], w)))
            lo, hi = G.int_range(w, 0)
            for v in (r[1] + (1 << w), r[1] - (1 << w)):
                if lo <= v <= hi:
                    out.append(("wrapped", B.IntegerAttr(v, ty)))
            if w == 1:
                out.append(("from_bool", B.IntegerAttr.from_bool(bool(r[1]))))
        if r[2][0] == "index":
            out.append(("from_index", B.IntegerAttr.from_index_int_value(r[1])))
    elif tag == "float":
        ty = G.float_type(r[2])
        x = G.fspec_value(r[1], r[2])
        out.append(("floatdata", B.FloatAttr(B.FloatData(x), ty)))
        out.append(("stored", B.FloatAttr(a.value.data, ty)))
        if r[2] in ("f16", "f32", "f64", "f80", "f128"):
            out.append(("width_int", B.FloatAttr(x, int(r[2][1:]))))
    elif tag == "str":
        out.append(("get", B.StringAttr.get(r[1])))
    elif tag == "array":
        elems = [G.build(x) for x in r[1]]
        out.append(("tuple", B.ArrayAttr(tuple(elems))))
        out.append(("iter", B.ArrayAttr(iter(elems))))
    elif tag == "dict":
        items = [(k, G.build(v)) for k, v in r[1]]
        out.append(("reversed", B.DictionaryAttr(dict(reversed(items)))))
        out.append(("immutabledict", B.DictionaryAttr(immutabledict(items))))
    elif tag == "symref":
        out.append(("attrs", B.SymbolRefAttr(B.StringAttr(r[1]),
                                              B.ArrayAttr([B.StringAttr(x) for x in r[2]]))))
    elif tag == "i":
        out.append(("attrs", B.IntegerType(B.IntAttr(r[1]), B.SignednessAttr(G.SIGN[r[2]]))))
        if r[2] == 0:
            out.append(("default_sign", B.IntegerType(r[1])))
    elif tag == "tensor":
        out.append(("intattr_dims", B.TensorType(G.build(r[1]), [B.IntAttr(d) for d in G._dims(r[2])],
                                                 G._opt(r[3]))))
    elif tag == "memref":
        out.append(("arrayattr_shape", B.MemRefType(
            G.build(r[1]), B.ArrayAttr([B.IntAttr(d) for d in G._dims(r[2])]), G._opt(r[3]),
            G._opt(r[4]))))
    elif tag == "vector" and not any(r[3]):
        out.append(("default_scalable", B.VectorType(G.build(r[1]), list(r[2]))))
    elif tag == "dense":
        out.append(("raw_bytes", B.DenseIntOrFPElementsAttr(a.type, B.BytesAttr(bytes(a.data.data)))))
    elif tag == "densearr":
        out.append(("raw_bytes", B.DenseArrayBase(a.elt_type, B.BytesAttr(bytes(a.data.data)))))
    elif tag == "strided" and r[2] == 0:
        out.append(("default_offset", B.StridedLayoutAttr(list(r[1]))))
    elif tag == "func":
        out.append(("from_attrs", B.FunctionType.from_attrs(
            B.ArrayAttr([G.build(x) for x in r[1]]), B.ArrayAttr([G.build(x) for x in r[2]]))))
    return out


TIMEOUT = object()  # parse_text result: CPU budget hit (inconclusive)


def parse_text(text, as_type=False, reset_resources=False):
    """Parse in a FRESH context (unregistered allowed). -> attr | None on ParseError | TIMEOUT."""
    from xdsl.context import Context
    from xdsl.dialects.builtin import Builtin
    from xdsl.parser import Parser
    from xdsl.utils.exceptions import ParseError
    from xdsl.utils.mlir_lexer import MLIRTokenKind
    if reset_resources:
        from xdsl.dialect_interfaces.op_asm import OpAsmDialectInterface
        OpAsmDialectInterface._blob_storage.clear()
    ctx = Context(allow_unregistered=True)
    ctx.load_dialect(Builtin)
    try:
        with quiet(), G.time_limit():
            p = Parser(ctx, text)
            a = p.parse_type() if as_type else p.parse_attribute()
            if p._current_token.kind is not MLIRTokenKind.EOF:
                return None
            return a
    except ParseError:
        return None
    except G.ParseTimeout:
        return TIMEOUT


def run_paths(h, recipe):
    r = recipe["r"]
    rep = Rep(h, recipe)
    try:
        a = G.build(r)
        alts = alt_paths(r, a)
    except G.Rejected as e:
        _discard(h, e.label)
        return
    text = safe_str(a)
    if text is not None:
        b = parse_text(text, reset_resources=True)
        if b is TIMEOUT:
            b = None
            if _counting(h):
                h.inconclusive("parse_timeout")
        if b is not None and G.attr_key(b) == G.attr_key(a):  # otherwise: C06's business
            alts.append(("reparse", b))
    check_single(rep, a)
    ka = G.attr_key(a)
    n_same = 0
    for label, b in alts:
        if G.attr_key(b) != ka:
            if label in ("rebuild", "deepcopy", "new", "stored", "raw_bytes"):
                rep.fail("path_" + label + "_key", a, b,
                         lambda x, y: G.attr_key(x) != G.attr_key(y),
                         f"path {label} changed the payload of {text!r:.120}")
            elif _counting(h):
                h.count("path_other_value:" + label)
            continue
        n_same += 1
        if _counting(h):
            h.count("path:" + label)
        check_single(rep, b)
        check_pair(rep, a, b, "path_" + label)
    _case(h, recipe, n_same > 0, "paths:" + cname(a))


# ------------------------------------------------------------------------------------------------
# same text, two contexts
def render(t) -> str:
    """Text recipe -> text.
    ["ua", dialect, name, body|None]  #dialect.name<body>      ["ut", ...]  !dialect.name<body>
    ["oa", dialect, name, body]       #dialect<name body>      ["ot", ...]  !dialect<name body>
    ["lit", text]   ["arr", [T...]]   ["dic", [[k, T]...]]   ["tensor", T] ["memref", T]
    ["func", [T...], [T...]]  ["tuple", [T...]]  ["rec", R]  (printed attrgen recipe)
    """
    k = t[0]
    if k in ("ua", "ut"):
        s = ("#" if k == "ua" else "!") + t[1] + "." + t[2]
        return s + (f"<{t[3]}>" if t[3] is not None else "")
    if k in ("oa", "ot"):
        return ("#" if k == "oa" else "!") + f"{t[1]}<{t[2]}{t[3]}>"
    if k == "lit":
        return t[1]
    if k == "arr":
        return "[" + ", ".join(render(x) for x in t[1]) + "]"
    if k == "dic":
        return "{" + ", ".join(f"{key} = {render(x)}" for key, x in t[1]) + "}"
    if k == "tensor":
        return f"tensor<2x{render(t[1])}>"
    if k == "memref":
        return f"memref<?x{render(t[1])}>"
    if k == "func":
        outs = ", ".join(render(x) for x in t[2])
        return "(" + ", ".join(render(x) for x in t[1]) + ") -> (" + outs + ")"
    if k == "tuple":
        return "tuple<" + ", ".join(render(x) for x in t[1]) + ">"
    if k == "rec":
        return str(G.build(t[1]))
    raise AssertionError(t)


def has_unregistered(t) -> bool:
    if isinstance(t, list):
        return (bool(t) and t[0] in ("ua", "ut", "oa", "ot")) or any(has_unregistered(x) for x in t)
    return False


def run_text2(h, recipe):
    rep = Rep(h, recipe)
    try:
        text = render(recipe["t"])
    except G.Rejected as e:
        _discard(h, e.label)
        return
    except NotImplementedError:
        _discard(h, "print_not_implemented")
        return
    a = parse_text(text)
    b = parse_text(text)
    if a is TIMEOUT or b is TIMEOUT:
        if _counting(h):
            h.inconclusive("parse_timeout")
        return
    if a is None and b is None:
        _discard(h, "text_does_not_parse")
        return
    if a is None or b is None:
        h.mismatch({"check": "two_contexts_parse", "cls": "-", "value_class": "-", "parent": "-"},
                   recipe, f"{text!r:.200} parses in one fresh context only")
        return
    check_single(rep, a)
    check_pair(rep, a, b, "two_contexts")
    _case(h, recipe, True, "text2:" + ("unregistered" if has_unregistered(recipe["t"]) else
                                       "registered") + ":" + cname(a))


# ------------------------------------------------------------------------------------------------
# CSE keys
def build_op(o):
    from xdsl.dialects.test import TestOp
    attrs = {k: G.build(r) for k, r in o["attrs"]}
    props = {k: G.build(r) for k, r in o["props"]}
    res = [G.build(r) for r in o["res"]]
    return TestOp(result_types=res, attributes=attrs, properties=props)


def run_opinfo(h, recipe):
    from xdsl.transforms.common_subexpression_elimination import KnownOps, OperationInfo
    try:
        a1, a2 = build_op(recipe["a"]), build_op(recipe["a"])
        b1 = build_op(recipe["b"])
    except G.Rejected as e:
        _discard(h, e.label)
        return

    def comps(op):
        return (dict(op.attributes), dict(op.properties), tuple(op.result_types))

    def comp_keys(op):
        at, pr, rs = comps(op)
        return (sorted((k, G.attr_key(v)) for k, v in at.items()),
                sorted((k, G.attr_key(v)) for k, v in pr.items()), [G.attr_key(x) for x in rs])

    def value_class(op):
        vals = list(op.attributes.values()) + list(op.properties.values()) + list(op.result_types)
        if any(contains_float(v, True) for v in vals):
            return "nan"
        return "float" if any(contains_float(v, False) for v in vals) else "-"

    def report(check, detail, op):
        h.mismatch({"check": check, "cls": "OperationInfo", "value_class": value_class(op),
                    "parent": "-"}, recipe, detail)

    i1, i2, j1 = OperationInfo(a1), OperationInfo(a2), OperationInfo(b1)
    sa, sb = op_str(a1), op_str(b1)
    same = comp_keys(a1) == comp_keys(b1)
    if not (i1 == i1):
        report("opinfo_reflexive", "OperationInfo(op) != itself", a1)
    if not (i1 == i2) or not (i2 == i1):
        report("opinfo_same_construction_unequal",
               f"two ops built from the same parameters have unequal CSE keys: {sa}", a1)
    elif hash(i1) != hash(i2):
        report("opinfo_eq_hash", f"equal CSE keys hash differently: {sa}", a1)
    else:
        known = KnownOps()
        known[a1] = a1
        if a2 not in known or known.get(a2) is not a1:
            report("opinfo_lookup", f"KnownOps does not find an identical op: {sa}", a1)
    e1, e2 = (i1 == j1), (j1 == i1)
    if e1 != e2:
        report("opinfo_symmetric", f"{sa} vs {sb}", a1)
    if e1 and hash(i1) != hash(j1):
        report("opinfo_eq_hash", f"{sa} vs {sb}", a1)
    # OperationInfo equality must agree with the equality of its components
    ce = comps(a1) == comps(b1)
    if ce != e1:
        report("opinfo_components", f"components equal: {ce}, OperationInfo equal: {e1}: {sa} vs {sb}",
               a1)
    if e1 and not same:
        for x, y in _zip_components(a1, b1):
            if observably_different(x, y, G.attr_key(x), G.attr_key(y)):
                u, v, _ = descend(x, y, lambda p, q: G.attr_key(p) != G.attr_key(q))
                h.mismatch({"check": "opinfo_diff_equal", "cls": "OperationInfo",
                            "value_class": pair_class(u, v), "parent": "-"}, recipe,
                           f"{sa} and {sb} have equal CSE keys")
                break
    _case(h, recipe, True, "opinfo:" + ("same" if same else "different"))


def op_str(op) -> str:
    try:
        return str(op)[:400]
    except NotImplementedError:
        return repr(op)[:400]


def contains_float(a, nan_only: bool) -> bool:
    import math
    from xdsl.dialects.builtin import FloatData
    if isinstance(a, FloatData):
        return math.isnan(a.data) if nan_only else True
    return any(contains_float(k, nan_only) for k in kids(a))


def _zip_components(a, b):
    out = []
    for da, db in ((a.attributes, b.attributes), (a.properties, b.properties)):
        for k in da:
            if k in db:
                out.append((da[k], db[k]))
    out += list(zip(a.result_types, b.result_types))
    return out


# ------------------------------------------------------------------------------------------------
# corpus: dialect attributes, the same module text parsed in two fresh contexts
def module_attrs(module):
    out = []
    for op in module.walk():
        out += [op.attributes[k] for k in sorted(op.attributes)]
        out += [op.properties[k] for k in sorted(op.properties)]
        out += list(op.result_types)
        for region in op.regions:
            for block in region.blocks:
                out += [arg.type for arg in block.args]
    return out


def _fixed_candidates():
    from xdsl.dialects import builtin as B
    return [B.i32, B.i64, B.f32, B.f64, B.IndexType(), B.StringAttr("x"), B.StringAttr(""),
            B.IntegerAttr(0, B.i32), B.IntegerAttr(1, B.i64), B.ArrayAttr([]), B.UnitAttr(),
            B.IntAttr(0), B.IntAttr(7), B.NoneAttr()]


def check_mutants(rep, a, pool) -> int:
    """Parameter sensitivity: rebuild `a` with one parameter replaced by another value that its
    own verifier accepts; if the printer distinguishes the two they must be unequal."""
    from xdsl.ir import ParametrizedAttribute
    if not isinstance(a, ParametrizedAttribute):
        return 0
    params = list(a.parameters)
    n = 0
    for i, p in enumerate(params):
        kp = G.attr_key(p)
        cands = [c for c in pool if type(c) is type(p)][:3] + _fixed_candidates()
        tried = 0
        for c in cands:
            if tried >= 4:
                break
            try:
                if G.attr_key(c) == kp:
                    continue
                b = type(a).new(params[:i] + [c] + params[i + 1:])
                G.attr_key(b)
            except Exception:  # the attribute's verifier (any error) rejects the replacement
                continue
            tried += 1
            n += 1
            check_pair(rep, a, b, None)
    return n


def run_corpus(h, recipe):
    """All chunks of one corpus file: every attribute of every op, the chunk parsed in two fresh
    contexts; the distinct values of the file are compared pairwise within each attribute class
    (at most 8 per class) and across classes (first 25 of each chunk)."""
    from vt import corpus
    texts = [t for rel, idx, t in corpus.chunks() if rel == recipe["file"] and len(t) <= 30000]
    if not texts:
        _discard(h, "corpus_file_missing")
        return
    rep = Rep(h, recipe)
    by_class: dict[str, list] = {}
    n_attrs = n_mut = 0
    for text in texts:
        try:
            with G.time_limit(60.0):
                m1 = corpus.parse_chunk(text, verify=False)
                m2 = corpus.parse_chunk(text, verify=False)
        except G.ParseTimeout:
            if _counting(h):
                h.inconclusive("corpus_parse_timeout")
            continue
        if m1 is None or m2 is None:
            _discard(h, "corpus_chunk_rejected")
            continue
        l1, l2 = module_attrs(m1), module_attrs(m2)
        if len(l1) != len(l2):
            h.mismatch({"check": "two_contexts_shape", "cls": "-", "value_class": "-",
                        "parent": "-"}, recipe,
                       "the same text parsed twice yields different numbers of attributes")
            continue
        seen, pool = set(), []
        for a, b in zip(l1, l2):
            try:
                k = G.attr_key(a)
                G.attr_key(b)
            except TypeError as e:
                if _counting(h):
                    h.count("corpus_unsupported_payload:" + str(e)[-40:])
                continue
            if k in seen:
                continue
            seen.add(k)
            n_attrs += 1
            check_single(rep, a)
            check_pair(rep, a, b, "two_contexts")
            if len(pool) < 25:
                pool.append(a)
            if n_mut < 400:
                n_mut += check_mutants(rep, a, pool)
            same_class = by_class.setdefault(cname(a), [])
            if len(same_class) < 8 and all(G.attr_key(x) != k for x in same_class):
                same_class.append(a)
            if _counting(h):
                h.count("corpus_attr:" + cname(a))
        for i in range(len(pool)):
            for j in range(i + 1, len(pool)):
                check_pair(rep, pool[i], pool[j], None)
    for vals in by_class.values():
        for i in range(len(vals)):
            for j in range(i + 1, len(vals)):
                check_pair(rep, vals[i], vals[j], None)
    _case(h, recipe, n_attrs > 0, "corpus")


# ------------------------------------------------------------------------------------------------
def run_tuple(h, recipe):
    pool, idx = recipe["pool"], recipe["idx"]
    rep = Rep(h, recipe)
    try:
        vals = [G.build(pool[i % len(pool)]) for i in idx]
    except G.Rejected as e:
        _discard(h, e.label)
        return
    for v in vals:
        check_single(rep, v)
    n = len(vals)
    nt = False
    for i in range(n):
        for j in range(i + 1, n):
            same = idx[i] % len(pool) == idx[j] % len(pool)
            keq = check_pair(rep, vals[i], vals[j], "rebuild" if same else None)
            nt = nt or same or keq
    if n == 3:
        for p in ((0, 1, 2), (1, 0, 2), (0, 2, 1)):
            check_triple(rep, vals[p[0]], vals[p[1]], vals[p[2]])
    _case(h, recipe, nt, "tuple:" + ("with_same" if nt else "all_different"))


def run_recipe(h, recipe):
    kind = recipe["kind"]
    if kind == "tuple":
        run_tuple(h, recipe)
    elif kind == "near":
        w = recipe["wrap"]
        run_pairlike(h, recipe, wrap(w, recipe["a"]), wrap(w, recipe["b"]), None, "near")
    elif kind == "paths":
        run_paths(h, recipe)
    elif kind == "text2":
        run_text2(h, recipe)
    elif kind == "opinfo":
        run_opinfo(h, recipe)
    elif kind == "corpus":
        run_corpus(h, recipe)
    elif kind == "many_names":
        run_many_names(h, recipe)
    elif kind == "hash_collision":
        run_hash_collision(h, recipe)
    else:
        raise AssertionError(kind)


def run_many_names(h, recipe):
    """The same unregistered attribute/type text parsed in two fresh contexts must be equal even when
    many other unregistered names were seen in between (any per-name class table must not forget)."""
    n = recipe["n"]
    probe = '[#und.probe<1>, !und.tprobe<"x">]'
    a = parse_text(probe)
    for i in range(n):
        parse_text(f"[#und.n{i}<{i}>, !und.t{i}]")
    b = parse_text(probe)
    _case(h, recipe, True, "many_names")
    if a is None or b is None or a is TIMEOUT or b is TIMEOUT:
        h.mismatch({"check": "two_contexts_parse", "cls": "-", "value_class": "many_names", "parent": "-"},
                   recipe, "probe text did not parse")
        return
    if not (a == b and b == a and hash(a) == hash(b)):
        h.mismatch({"check": "two_contexts_unequal", "cls": "UnregisteredAttr", "value_class": "many_names_between"},
                   recipe, f"same text parsed before and after {n} other unregistered names: equal={a == b}")


def run_hash_collision(h, recipe):
    """CSE keys (OperationInfo) of two ops whose only difference is an attribute/property value with the
    SAME Python hash (hash(-1) == hash(-2), hash(n) == hash(n + 2**61 - 1)) must be unequal."""
    from xdsl.dialects.builtin import IntegerAttr, i64
    from xdsl.dialects.test import TestOp
    from xdsl.transforms.common_subexpression_elimination import OperationInfo
    x, y = [(-1, -2), (5, 5 + 2**61 - 1), (0, 2**61 - 1)][recipe["pair"] % 3]
    where = recipe["where"]
    ax, ay = IntegerAttr(x, i64), IntegerAttr(y, i64)
    _case(h, recipe, True, "hash_collision")
    if hash(ax) != hash(ay):
        h.count("hash_collision_pair_hashes_differ")
    kw = "properties" if where == "prop" else "attributes"
    key = "prop1" if where == "prop" else "v"
    o1 = TestOp.create(result_types=[i64], **{kw: {key: ax}})
    o2 = TestOp.create(result_types=[i64], **{kw: {key: ay}})
    if ax == ay:
        h.mismatch({"check": "diff_equal", "cls": "IntegerAttr", "value_class": "hash_collision"}, recipe, f"{ax} == {ay}")
    if OperationInfo(o1) == OperationInfo(o2) or OperationInfo(o2) == OperationInfo(o1):
        h.mismatch({"check": "opinfo_diff_equal", "cls": "OperationInfo", "value_class": "hash_collision", "where": where},
                   recipe, f"ops differing only in {kw}[{key}] = {x} vs {y} have equal CSE keys")


def replay(h, recipe):
    run_recipe(h, recipe)


# ------------------------------------------------------------------------------------------------
def near_s():
    wrap_s = st.sampled_from([["plain"], ["plain"], ["array"], ["dict"], ["enc"], ["nested"]])
    conf = st.sampled_from(CONFUSABLE).map(lambda b: ["d", b])
    name = st.one_of(st.sampled_from(G.MAIN_FLOATS), st.sampled_from(G.FLOAT_NAMES))
    form = st.sampled_from(["attr", "attr", "dense_splat", "dense_list", "dense_complex", "densearr"])

    def floats(args):
        w, n, fm, f1, f2 = args
        if fm == "dense_complex" and n not in ("f16", "f32", "f64"):
            n = "f32"
        if fm == "densearr" and n not in ("f16", "bf16", "f32", "f64"):
            n = "f64"
        return {"kind": "near", "wrap": w, "a": near_recipe(fm, n, f1), "b": near_recipe(fm, n, f2)}

    fl = st.tuples(wrap_s, name, form, st.one_of(conf, conf, G.fspec_s("f64")),
                   st.one_of(conf, conf, G.fspec_s("f32"))).map(floats)

    def ints(args):
        w, width, v, sgn = args
        lo, hi = G.int_range(width, 0)
        v = lo + v % (hi - lo + 1)
        v2 = v - (1 << width) if v - (1 << width) >= lo else v + (1 << width) if \
            v + (1 << width) <= hi else v
        ty = ["i", width, 0]
        return {"kind": "near", "wrap": w, "a": ["int", v, ty], "b": ["int", v2, ty]}

    it = st.tuples(wrap_s, st.sampled_from([1, 2, 8, 16, 32, 64, 128]), st.integers(0, 2 ** 130),
                   st.just(0)).map(ints)
    # same payload under two different types / two types differing in one parameter
    small_int_ty = st.one_of(st.tuples(st.just("i"), st.sampled_from([8, 16, 32, 64, 128]),
                                       st.integers(0, 2)).map(list), st.just(["index"]))

    def typed(args):
        w, kind, v, t1, t2, n1, n2, f = args
        if kind == "int":
            a, b = ["int", v, t1], ["int", v, t2]
        elif kind == "float":
            a, b = ["float", f, n1], ["float", f, n2]
        elif kind == "dense":
            a = ["dense", ["tensor", t1, [2], None], [v], "splat"]
            b = ["dense", ["tensor", t2, [2], None], [v], "splat"]
        elif kind == "shaped":
            a, b = ["tensor", t1, [2], None], ["vector", t1, [2], [0]]
        else:
            a, b = ["tensor", t1, [2], None], ["tensor", t2, [2], None]
        return {"kind": "near", "wrap": w, "a": a, "b": b}

    ty = st.tuples(wrap_s, st.sampled_from(["int", "int", "float", "dense", "shaped", "elt"]),
                   st.integers(0, 100), small_int_ty, small_int_ty, name, name,
                   st.one_of(conf, G.fspec_s("f16"))).map(typed)
    return st.one_of(fl, fl, fl, it, ty, ty)


def text_s():
    dialect = st.sampled_from(["foo", "a", "my_d", "x1"])
    name = st.sampled_from(["bar", "t", "b_c", "q.r"])
    body = st.sampled_from(["1", "1 : i32", "\"x\"", "[1, 2]", "i32", "{a = 1}", "<1>", "(a) -> b",
                            "\"a>b\"", "1, 2", "#foo.bar<2>", "!a.t", "  3 ", "?x4xf32", "-1.0",
                            "0x7FC00000 : f32", "\"\\22\""])
    ua = st.tuples(st.just("ua"), dialect, name, st.one_of(st.none(), body)).map(list)
    ut = st.tuples(st.just("ut"), dialect, name, st.one_of(st.none(), body)).map(list)
    oa = st.tuples(st.just("oa"), dialect, st.sampled_from(["bar", "t"]),
                   st.sampled_from(["", " 1", "<1>", " \"x\"", "[1]"])).map(list)
    ot = st.tuples(st.just("ot"), dialect, st.sampled_from(["bar", "t"]),
                   st.sampled_from(["", " 1", "<1>", "[i32]"])).map(list)
    utype = st.one_of(ut, ut, ot, st.sampled_from([["lit", "i32"], ["lit", "f32"], ["lit", "index"]]))
    lit = st.sampled_from([["lit", "1 : i32"], ["lit", "\"s\""], ["lit", "unit"], ["lit", "@sym"],
                           ["lit", "dense_resource<blob> : tensor<2xi32>"],
                           ["lit", "dense<0.0> : tensor<2xf32>"], ["lit", "0x7FC00000 : f32"],
                           ["lit", "loc(unknown)"], ["lit", "affine_map<(d0) -> (d0)>"]])
    types = st.one_of(
        utype,
        st.tuples(st.just("tensor"), utype).map(list), st.tuples(st.just("memref"), utype).map(list),
        st.tuples(st.just("func"), st.lists(utype, max_size=2), st.lists(utype, max_size=2)).map(list),
        st.tuples(st.just("tuple"), st.lists(utype, max_size=3)).map(list))
    leaf = st.one_of(ua, ua, oa, types, types, lit)
    key = st.sampled_from(["a", "b", "k_1"])
    comp = st.one_of(
        leaf, leaf,
        st.tuples(st.just("arr"), st.lists(leaf, max_size=3)).map(list),
        st.tuples(st.just("dic"), st.lists(st.tuples(key, leaf).map(list), max_size=2,
                                           unique_by=lambda kv: kv[0])).map(list),
        st.tuples(st.just("rec"), G.attr_s(1)).map(list))
    return comp.map(lambda t: {"kind": "text2", "t": t})


def opinfo_s():
    val = st.one_of(G.float_attr_s(), G.float_attr_s(), G.int_attr_s(), G.atom_s(),
                    st.sampled_from(CONFUSABLE).map(lambda b: ["float", ["d", b], "f32"]),
                    st.sampled_from(CONFUSABLE).map(lambda b: ["float", ["d", b], "f64"]))
    attrs = st.lists(st.tuples(st.sampled_from(["a", "b", "value"]), val).map(list), max_size=2,
                     unique_by=lambda kv: kv[0])
    props = st.lists(st.tuples(st.sampled_from(["prop1", "prop2"]), val).map(list), max_size=2,
                     unique_by=lambda kv: kv[0])
    res = st.lists(G.type_s(1), max_size=2)
    o = st.tuples(attrs, props, res).map(lambda t: {"attrs": t[0], "props": t[1], "res": t[2]})
    def tweak(t):
        """b = a with exactly one component dropped or replaced."""
        a, part, v, drop = t
        b = {k: list(x) for k, x in a.items()}
        if b[part]:
            if drop:
                b[part] = b[part][:-1]
            elif part == "res":
                b[part] = b[part][:-1] + [["i", 7, 2]]
            else:
                b[part] = b[part][:-1] + [[b[part][-1][0], v]]
        elif part == "res":
            b[part] = [["index"]]
        else:
            b[part] = [["prop1" if part == "props" else "a", v]]
        return {"kind": "opinfo", "a": a, "b": b}

    near = st.tuples(o, st.sampled_from(["attrs", "props", "res"]), val, st.booleans()).map(tweak)
    return st.one_of(
        o.map(lambda x: {"kind": "opinfo", "a": x, "b": x}), near,
        st.tuples(o, o).map(lambda t: {"kind": "opinfo", "a": t[0], "b": t[1]}))


def tuple_s():
    pool = st.lists(st.one_of(G.attr_s(1), G.atom_s(), G.float_attr_s()), min_size=1, max_size=3)
    idx = st.lists(st.integers(0, 2), min_size=2, max_size=3)
    return st.tuples(pool, idx).map(lambda t: {"kind": "tuple", "pool": t[0], "idx": t[1]})


def fixed_near():
    """Exhaustive: confusable float payload pairs x float type x form."""
    for name in G.FLOAT_NAMES:
        for form in ("attr", "dense_splat", "dense_list"):
            for i, b1 in enumerate(CONFUSABLE):
                for b2 in CONFUSABLE[i:]:
                    yield {"kind": "near", "wrap": ["plain"], "a": near_recipe(form, name, ["d", b1]),
                           "b": near_recipe(form, name, ["d", b2])}


def fixed_text():
    for t in (["ua", "foo", "bar", "1"], ["ua", "foo", "bar", None], ["ut", "foo", "t", None],
              ["oa", "foo", "bar", " 1"], ["ot", "foo", "t", "[1,2]"],
              ["arr", [["ua", "foo", "bar", "1"], ["ut", "foo", "t", None]]],
              ["tensor", ["ut", "foo", "t", None]], ["dic", [["a", ["ua", "foo", "bar", "\"x\""]]]],
              ["func", [["ut", "a", "b", None]], [["ut", "a", "c", None]]],
              ["lit", "dense_resource<h> : tensor<2xi32>"], ["lit", "1 : i32"]):
        yield {"kind": "text2", "t": t}


def checks(h):
    idx = 0
    for gen in (fixed_near(), fixed_text()):
        for r in gen:
            idx += 1
            if idx % h.nshards == h.shard:
                run_recipe(h, r)

    if h.shard == 0:
        run_recipe(h, {"kind": "many_names", "n": 300})
    if h.shard == 1 % h.nshards:
        for pair in range(3):
            for where in ("prop", "attr"):
                run_recipe(h, {"kind": "hash_collision", "pair": pair, "where": where})

    # corpus files of this shard (dialect attributes)
    from vt import corpus
    files = sorted({rel for rel, _, _ in corpus.chunks()})
    for i, rel in enumerate(files):
        if i % h.nshards == h.shard:
            run_recipe(h, {"kind": "corpus", "file": rel})

    def body(r):
        run_recipe(h, r)

    n = h.scale
    h.hyp("near", near_s(), body, n(800, 12000), 1)
    h.hyp("tuple", tuple_s(), body, n(700, 12000), 2)
    h.hyp("paths", st.one_of(G.attr_s(1), G.atom_s(), G.int_attr_s(), G.float_attr_s(),
                             G.type_s(1)).map(lambda r: {"kind": "paths", "r": r}),
          body, n(700, 12000), 3)
    h.hyp("text2", text_s(), body, n(500, 8000), 4)
    h.hyp("opinfo", opinfo_s(), body, n(400, 6000), 5)
