"""C21 -- x86 backend code computes the source results and honours the SysV ABI.

Recipe (the replay unit) is a BATCH of functions, because one assembler/linker/child-process round is
shared by all functions of a batch:

    {"funcs": [F, ...]}
    F = {"args": [t, ...],            t: 0 = i64, 1 = i32          (0..10 parameters; >6 => stack passed)
         "ops":  [[kind, t, a, b]],   kind "const": a = the constant (any int, wrapped to the type), b unused
                                      kind "addi"/"muli"/...: operands = pool[t][a % n], pool[t][b % n]
                                      (pool[t] = parameters of type t in order, then earlier results of type t)
         "ret":  [t, i] | [],         returned value pool[t][i % n] (empty list: function returns nothing)
         "vecs": [[v, ...], ...]}     argument vectors: 64-bit patterns, parameter i gets vec[i] (0 if
                                      missing); for i32 parameters only the low 32 bits are the argument,
                                      the upper half of the register / stack slot is GARBAGE (taken from
                                      the vector, or a fixed junk pattern if the vector's upper half is 0)

Every recipe whose pools are non-empty where they are used is valid; anything else raises ValueError
(malformed: only reachable through the delta-debugger).
"""
from __future__ import annotations

import io
import re
import shutil
import tempfile
from contextlib import contextmanager

from hypothesis import strategies as st

from vt.run import quiet

ID = "C21"
SHARDS = {"quick": 16, "thorough": 16}
RULE = ("Hypothesis generates batches of single-block integer func.func recipes: 0-10 parameters of type "
        "i64/i32 (all-i64, all-i32 or mixed; >6 parameters => SysV stack-passed arguments), bodies of "
        "arith.constant (boundary and random values) and the binary arith ops that convert-arith-to-x86 "
        "accepts (each of addi/subi/muli/andi/ori/xori x {i64,i32} is probed once per shard in a one-op "
        "function; rejected kinds are reported under excluded_by_construction), shaped as random DAGs, "
        "chains with argument reuse, or 'fans' (6-14 values all live at once, then reduced) to force "
        "callee-saved registers; one result or none. Each function is built as IR, verified, evaluated by "
        "vt.refsem.run_function on every argument vector (cross-checked against a recipe-level evaluator), "
        "compiled with convert-func-to-x86-func, convert-arith-to-x86, reconcile-unrealized-casts, "
        "canonicalize, dce, x86-allocate-registers, canonicalize, x86-prologue-epilogue-insertion and the "
        "x86-asm target; an exception anywhere in the pipeline/emitter = program rejected = discarded "
        "(counted by exception class). The texts of a batch are assembled by the system assembler into "
        "one shared object with a hand-written trampoline and called in a forked child (marker before "
        "each call; a signal is blamed on the call in progress). Oracle per call: rax at the declared "
        "result width == refsem result; rbx, rbp, r12-r15 after the call == sentinels loaded before; rsp "
        "after == rsp before; no signal; emitted text assembles. i32 arguments are passed with garbage in "
        "the upper 32 bits. Signatures: failed sub-oracle + facts of the needed source code (stack "
        "argument used, types, op kinds) and of the emitted text (prologue present, register saved/"
        "restored, alias width written, push/pop balance). "
        "Non-trivial: >=7 parameters, or >=8 simultaneously live source values (after removing dead "
        "code), or the emitted text mentions a callee-saved register.")
ASSUMPTIONS = [
    "the host CPU, `as`, the linker and ctypes behave as documented (the hand-written trampoline is "
    "self-tested at shard start on hand-written functions with known results/clobbers)",
    "vt.refsem integer semantics of arith.addi/subi/muli/andi/ori/xori/constant (two's complement wrap "
    "at the type width) -- cross-checked per call against an independent recipe-level evaluator",
    "SysV AMD64 ABI: integer args in rdi,rsi,rdx,rcx,r8,r9 then 8-byte stack slots at [rsp+8..] on entry; "
    "result in rax/eax; rbx, rbp, r12-r15, rsp preserved; upper halves of i32 argument registers/slots "
    "are unspecified",
    "func.func is given `public` visibility so that the emitter prints .globl (needed to find the symbol)",
]

TYS = ("i64", "i32")
WIDTH = (64, 32)
BIN_KINDS = ("addi", "subi", "muli", "andi", "ori", "xori")
PIPELINE = ("convert-func-to-x86-func,convert-arith-to-x86,reconcile-unrealized-casts,canonicalize,dce,"
            "x86-allocate-registers,canonicalize,x86-prologue-epilogue-insertion")
M64 = (1 << 64) - 1
JUNK_HI = 0xA5C3F00D

BOUNDARY = [0, 1, 2, 3, 7, M64, M64 - 1, (1 << 31) - 1, 1 << 31, (1 << 32) - 1, 1 << 32, (1 << 63) - 1,
            1 << 63, 0x8000000080000000, 0x00000001FFFFFFFF, 0xFFFFFFFF00000000,
            0x123456789ABCDEF1, 0xDEADBEEFCAFEF00D, 0x0F1E2D3C4B5A6978, 0x9E3779B97F4A7C15,
            0xC2B2AE3D27D4EB4F, 0x165667B19E3779F9, 0x27D4EB2F165667C5, 0x7FFFFFFF7FFFFFFF,
            0x00000000FFFF0001, 0x5555555555555555, 0xAAAAAAAAAAAAAAAB, 0x0000000100000001,
            0x00010000FFFFFFFD, 0x3333333333333335, 0x00FF00FF00FF00FF, 0xFEDCBA9876543211]
CONSTS = [0, 1, -1, 2, 3, 5, -7, 10, 255, 65537, (1 << 31) - 1, -(1 << 31), 1000003, -1000003, 0x7FFF0001,
          46341, -46341, 0x55555555, -0x55555556, 1 << 30]
BIG_CONSTS = [(1 << 31), (1 << 32) - 1, 1 << 32, (1 << 63) - 1, -(1 << 63), 0x123456789ABCDEF,
              -0x0FEDCBA987654321, -(1 << 31) - 1]


# ------------------------------------------------------------------------------------------------
# recipe -> IR, recipe-level evaluation and liveness
# ------------------------------------------------------------------------------------------------

def _norm(recipe):
    """Validate the shape of one function recipe; returns (args, ops, ret, vecs). Raises ValueError."""
    if not isinstance(recipe, dict):
        raise ValueError("function recipe must be a dict")
    args, ops, ret, vecs = (recipe.get("args"), recipe.get("ops"), recipe.get("ret"),
                            recipe.get("vecs"))
    if not (isinstance(args, list) and isinstance(ops, list) and isinstance(ret, list)
            and isinstance(vecs, list)):
        raise ValueError("malformed function recipe")
    if len(args) > 10 or any(t not in (0, 1) or isinstance(t, bool) for t in args):
        raise ValueError("bad parameter list")
    for op in ops:
        if not (isinstance(op, list) and len(op) == 4 and isinstance(op[0], str)
                and op[1] in (0, 1) and all(isinstance(x, int) and not isinstance(x, bool)
                                            for x in op[1:])):
            raise ValueError(f"bad op {op!r}")
        if op[0] != "const" and op[0] not in BIN_KINDS:
            raise ValueError(f"bad op kind {op[0]!r}")
    if ret and not (len(ret) == 2 and ret[0] in (0, 1) and isinstance(ret[1], int)):
        raise ValueError("bad ret")
    if not vecs:
        raise ValueError("no argument vectors")
    for v in vecs:
        if not (isinstance(v, list) and all(isinstance(x, int) and not isinstance(x, bool) and
                                            0 <= x <= M64 for x in v)):
            raise ValueError("bad vector")
    return args, ops, ret, vecs


def resolve(recipe):
    """Resolve modulo indices. Returns (args, nodes, ret) where nodes[i] = (kind, t, x, y) with x, y
    references ('a', i) to parameter i / ('o', j) to op j (or the constant for kind const) and ret = ref|None."""
    args, ops, ret, _ = _norm(recipe)
    pools = {0: [("a", i) for i, t in enumerate(args) if t == 0],
             1: [("a", i) for i, t in enumerate(args) if t == 1]}
    nodes = []
    for j, (kind, t, a, b) in enumerate(ops):
        if kind == "const":
            nodes.append((kind, t, a, None))
        else:
            p = pools[t]
            if not p:
                raise ValueError("operand pool empty")
            nodes.append((kind, t, p[a % len(p)], p[b % len(p)]))
        pools[t].append(("o", j))
    r = None
    if ret:
        p = pools[ret[0]]
        if not p:
            raise ValueError("return pool empty")
        r = p[ret[1] % len(p)]
    return args, nodes, r


def wrap(v, t):
    return v & ((1 << WIDTH[t]) - 1)


def signed(v, t):
    w = WIDTH[t]
    v &= (1 << w) - 1
    return v - (1 << w) if v >> (w - 1) else v


def ref_eval(recipe, logical_args):
    """Independent recipe-level evaluation (unsigned bit patterns). Returns the result or None (void)."""
    args, nodes, r = resolve(recipe)
    vals = {}
    for i, t in enumerate(args):
        vals[("a", i)] = wrap(logical_args[i], t)
    for j, (kind, t, x, y) in enumerate(nodes):
        if kind == "const":
            v = x
        else:
            p, q = vals[x], vals[y]
            v = {"addi": p + q, "subi": p - q, "muli": p * q, "andi": p & q, "ori": p | q,
                 "xori": p ^ q}[kind]
        vals[("o", j)] = wrap(v, t)
    return None if r is None else vals[r]


def analysis(recipe):
    """Facts about the code that feeds the result (dead code removed): dict with
    maxlive (max number of simultaneously live source values; a value is live from its definition --
    parameters: from entry -- to its last needed use), nops, stack_arg_used, types, kinds."""
    args, nodes, r = resolve(recipe)
    if r is None:
        return {"maxlive": 0, "nops": 0, "stack_arg_used": False, "types": "void", "kinds": "none"}
    needed = set()
    todo = [r]
    while todo:
        x = todo.pop()
        if x in needed:
            continue
        needed.add(x)
        if x[0] == "o":
            kind, _, p, q = nodes[x[1]]
            if kind != "const":
                todo += [p, q]
    order = [("o", j) for j in range(len(nodes)) if ("o", j) in needed]
    born = {x: pos for pos, x in enumerate(order)}
    last = {}
    for pos, x in enumerate(order):
        kind, _, p, q = nodes[x[1]]
        if kind != "const":
            last[p] = pos
            last[q] = pos
    last[r] = len(order)
    best = 0
    for pos in range(len(order) + 1):
        live = sum(1 for x in needed if born.get(x, -1) < pos <= last.get(x, -2))
        best = max(best, live)
    tys = set()
    for x in needed:
        tys.add(args[x[1]] if x[0] == "a" else nodes[x[1]][1])
    kinds = sorted({nodes[x[1]][0] for x in order})
    return {"maxlive": best, "nops": len(order),
            "stack_arg_used": any(x[0] == "a" and x[1] >= 6 for x in needed),
            "types": "mixed" if len(tys) == 2 else TYS[tys.pop()],
            "kinds": "+".join(kinds) or "none"}


def logical_args(recipe, vec):
    args = recipe["args"]
    return [wrap(vec[i] if i < len(vec) else 0, t) for i, t in enumerate(args)]


def raw_args(recipe, vec):
    """64-bit patterns put into registers / stack slots: i32 parameters get garbage upper halves."""
    out = []
    for i, t in enumerate(recipe["args"]):
        v = (vec[i] if i < len(vec) else 0) & M64
        if t == 1 and (v >> 32) == 0:
            v |= ((JUNK_HI ^ (i * 0x01010101)) & 0xFFFFFFFF) << 32
        out.append(v)
    return out


def build(recipe, name="f"):
    """Deterministically build builtin.module { func.func public @name(...) } from one function recipe."""
    from xdsl.dialects import arith, func
    from xdsl.dialects.builtin import IntegerAttr, ModuleOp, StringAttr, i32, i64
    from xdsl.ir import Block, Region
    tys = (i64, i32)
    args, nodes, r = resolve(recipe)
    block = Block(arg_types=[tys[t] for t in args])
    vals = {("a", i): block.args[i] for i in range(len(args))}
    cls = {"addi": arith.AddiOp, "subi": arith.SubiOp, "muli": arith.MuliOp, "andi": arith.AndIOp,
           "ori": arith.OrIOp, "xori": arith.XOrIOp}
    for j, (kind, t, x, y) in enumerate(nodes):
        if kind == "const":
            op = arith.ConstantOp(IntegerAttr(signed(x, t), tys[t]))
        else:
            op = cls[kind](vals[x], vals[y])
        block.add_op(op)
        vals[("o", j)] = op.results[0]
    if r is None:
        block.add_op(func.ReturnOp())
        outs = []
    else:
        block.add_op(func.ReturnOp(vals[r]))
        outs = [vals[r].type]
    f = func.FuncOp(name, ([tys[t] for t in args], outs), Region(block),
                    visibility=StringAttr("public"))
    module = ModuleOp([f])
    module.verify()
    return module


def render(module) -> str:
    from xdsl.printer import Printer
    s = io.StringIO()
    Printer(stream=s).print_op(module)
    return s.getvalue()


# ------------------------------------------------------------------------------------------------
# the pipeline under test
# ------------------------------------------------------------------------------------------------

_STATE = {}


def _tools():
    if "pipe" not in _STATE:
        from xdsl.context import Context
        from xdsl.dialects import get_all_dialects
        from xdsl.passes import PassPipeline
        from xdsl.targets import get_all_targets
        from xdsl.transforms import get_all_passes
        ctx = Context()
        for n, f in get_all_dialects().items():
            ctx.register_dialect(n, f)
        _STATE["ctx"] = ctx
        _STATE["pipe"] = PassPipeline.parse_spec(get_all_passes(), PIPELINE)
        _STATE["target"] = get_all_targets()["x86-asm"]()()
    return _STATE["ctx"], _STATE["pipe"], _STATE["target"]


def compile_module(module) -> str:
    """Documented pipeline + `-t x86-asm` on `module` (mutated in place). Raises whatever xDSL raises."""
    ctx, pipe, target = _tools()
    with quiet():
        pipe.apply(ctx, module)
        out = io.StringIO()
        target.emit(ctx, module, out)
    return out.getvalue()


def reject_label(e: BaseException) -> str:
    msg = re.sub(r"%\w+|\d+", "N", str(e).strip().split("\n")[0])[:50]
    return f"pipeline_rejects:{type(e).__name__}:{msg}"


CSR_NAMES = re.compile(r"\b(rbx|ebx|bx|bl|rbp|ebp|bp|bpl|r1[2-5][dwb]?)\b")


def asm_body(text: str) -> str:
    return "\n".join(re.sub(r"#.*", "", ln).rstrip() for ln in text.split("\n"))


# ------------------------------------------------------------------------------------------------
# evaluation of a list of function recipes (one assembler + child round)
# ------------------------------------------------------------------------------------------------

class Session:
    def __init__(self):
        from vt.machines import x86native
        self.x = x86native
        self.dir = tempfile.mkdtemp(prefix="vt-c21-")
        self.tb = x86native.Toolbox(self.dir)
        self.serial = 0

    def close(self):
        shutil.rmtree(self.dir, ignore_errors=True)


@contextmanager
def session():
    s = Session()
    try:
        yield s
    finally:
        s.close()


class Out:
    """Outcome of one function recipe."""
    __slots__ = ("recipe", "status", "label", "src", "asm", "failures", "maxlive", "nops", "csr",
                 "calls", "timeout")

    def __init__(self, recipe):
        self.recipe = recipe
        self.status = "ok"          # ok | rejected
        self.label = None
        self.src = self.asm = ""
        self.failures = {}          # key (check, what) -> detail text
        self.maxlive = self.nops = 0
        self.csr = False
        self.calls = 0
        self.timeout = False


def evaluate(sess: Session, recipes):
    """Compile, assemble, run and judge every function recipe. Malformed recipes raise ValueError."""
    from vt import refsem
    outs = []
    texts, jobs, jobmeta = [], [], []
    for rcp in recipes:
        o = Out(rcp)
        outs.append(o)
        sess.serial += 1
        name = f"vtf{sess.serial}"
        module = build(rcp, name)
        o.src = render(module)
        an = analysis(rcp)
        o.maxlive, o.nops = an["maxlive"], an["nops"]
        expected = []
        for vec in rcp["vecs"]:
            la = logical_args(rcp, vec)
            res = refsem.run_function(module, name, la)
            if not res.defined:
                raise AssertionError(f"refsem result undefined for generated function: {res!r}")
            mine = ref_eval(rcp, la)
            theirs = res.values[0] if res.values else None
            if mine != theirs:
                raise AssertionError(f"reference evaluators disagree: recipe {mine} refsem {theirs}\n{o.src}")
            expected.append(mine)
        try:
            o.asm = compile_module(module)
        except Exception as e:  # noqa: BLE001 - any failure of the pipeline = program rejected (counted)
            o.status, o.label = "rejected", reject_label(e)
            continue
        o.csr = bool(CSR_NAMES.search(asm_body(o.asm)))
        texts.append((name, o.asm))
        jobmeta.append((o, name, expected))
    if not texts:
        return outs
    so, errors, good = sess.tb.assemble(texts)
    good = set(good)
    for o, name, expected in jobmeta:
        if name in errors:
            cls, msg = errors[name]
            o.failures[("assemble_fails", cls)] = f"assembler: {msg}"
        elif name in good:
            jobs.append((name, [raw_args(o.recipe, v) for v in o.recipe["vecs"]]))
    if so is None or not jobs:
        return outs
    res = sess.x.run(so, jobs)
    byname = {name: (o, expected) for o, name, expected in jobmeta}
    for ji, (name, vecs) in enumerate(jobs):
        o, expected = byname[name]
        rt = o.recipe["ret"][0] if o.recipe["ret"] else None
        for vi in range(len(vecs)):
            r = res.get((ji, vi))
            if r is None:
                continue            # not run: an earlier vector of this function crashed
            o.calls += 1
            argtxt = "args=[" + ", ".join(hex(a) for a in vecs[vi]) + "]"
            if r[0] == "noexport":
                raise AssertionError(f"symbol {name} not exported although the function is public:\n{o.asm}")
            if r[0] == "timeout":
                o.timeout = True
                continue
            if r[0] == "crash":
                o.failures.setdefault(("crash_signal", r[1]), f"{r[1]} during call with {argtxt}")
                continue
            d = r[1]
            if rt is not None:
                got = wrap(d["rax"], rt)
                if got != expected[vi]:
                    o.failures.setdefault(
                        ("wrong_result", "-"),
                        f"returned {got:#x} (rax={d['rax']:#x}), source computes {expected[vi]:#x} "
                        f"as {TYS[rt]}; {argtxt}")
            for reg in sess.x.CALLEE_SAVED:
                if d[reg] != sess.x.SENTINELS[reg]:
                    o.failures.setdefault(
                        ("callee_saved_clobbered", reg),
                        f"{reg} = {d[reg]:#x} after the call, was {sess.x.SENTINELS[reg]:#x} before; {argtxt}")
            if d["rsp_after"] != d["rsp_before"]:
                o.failures.setdefault(
                    ("rsp_changed", "rsp"),
                    f"rsp after the call differs by {d['rsp_after'] - d['rsp_before']:+d}; {argtxt}")
    return outs


# ------------------------------------------------------------------------------------------------
# signatures: the failed sub-oracle + facts about the (needed part of the) source function and about the
# emitted text that separate root-cause classes. No extra runs; computed from the recipe that failed, so
# the delta-debugger of vt.run keeps them fixed while it removes everything else.
# ------------------------------------------------------------------------------------------------

ALIASES = {}
for _r64, _names in {"rbx": ("rbx", "ebx", "bx", "bl"), "rbp": ("rbp", "ebp", "bp", "bpl"),
                     "r12": ("r12", "r12d", "r12w", "r12b"), "r13": ("r13", "r13d", "r13w", "r13b"),
                     "r14": ("r14", "r14d", "r14w", "r14b"), "r15": ("r15", "r15d", "r15w", "r15b"),
                     "rsp": ("rsp", "esp", "sp", "spl")}.items():
    for _n, _w in zip(_names, ("64", "32", "16", "8")):
        ALIASES[_n] = (_r64, _w)


def asm_facts(text):
    """pushes/pops (register names in order) and, per callee-saved register, the widths of the aliases
    through which instructions other than push/pop write it (first operand = destination)."""
    pushes, pops, written = [], [], {}
    for ln in asm_body(text).split("\n"):
        m = re.match(r"\s+([a-z]\w*)\s*([^,]*)(?:,(.*))?$", ln)
        if not m:
            continue
        mn, dst = m.group(1), m.group(2).strip()
        if mn == "push":
            pushes.append(dst)
        elif mn == "pop":
            pops.append(dst)
        elif dst in ALIASES:
            written.setdefault(ALIASES[dst][0], set()).add(ALIASES[dst][1])
    return pushes, pops, written


def signature(o, key):
    check, what = key
    an = analysis(o.recipe)
    pushes, pops, written = asm_facts(o.asm)
    sig = {"check": check}
    if check == "wrong_result":
        sig.update(stack_arg_used="yes" if an["stack_arg_used"] else "no",
                   prologue="yes" if pushes else "no", types=an["types"], ops=an["kinds"])
    elif check == "callee_saved_clobbered":
        sig.update(reg=what, saved="yes" if what in pushes else "no",
                   restored="yes" if what in pops else "no",
                   written_as="+".join(sorted(written.get(what, ()))) or "none")
    elif check == "rsp_changed":
        sig.update(push_pop_balance=f"{len(pushes) - len(pops):+d}")
    elif check == "crash_signal":
        sig.update(signal=what, push_pop_balance=f"{len(pushes) - len(pops):+d}")
    elif check == "assemble_fails":
        sig.update(error=what)
    return sig


def reports_of(outs):
    reps = []
    for o in outs:
        if o.status != "ok":
            continue
        for key, detail in o.failures.items():
            reps.append((signature(o, key), {"funcs": [o.recipe]},
                         f"{detail}\n--- source ---\n{o.src}\n--- emitted ---\n{o.asm}"))
    return reps


def present(recipe):
    f = []
    if len(recipe["args"]) > 6:
        f.append("stack_args")
    if 1 in recipe["args"] or any(op[1] == 1 for op in recipe["ops"]) or (
            recipe["ret"] and recipe["ret"][0] == 1):
        f.append("i32")
    if any(op[0] == "muli" for op in recipe["ops"]):
        f.append("mul")
    return f


# ------------------------------------------------------------------------------------------------
# body / replay
# ------------------------------------------------------------------------------------------------

def run_batch(h, sess, batch, label):
    if not isinstance(batch, dict) or not isinstance(batch.get("funcs"), list):
        raise ValueError("malformed batch recipe")
    funcs = batch["funcs"]
    for f in funcs:
        resolve(f)
    if not funcs:
        return
    outs = evaluate(sess, funcs)
    for o in outs:
        if o.status == "rejected":
            h.discard(o.label)
            continue
        if o.timeout:
            h.inconclusive("native_call_timeout")
        n = len(o.recipe["args"])
        nontrivial = n >= 7 or o.maxlive >= 8 or o.csr
        h.case({"funcs": [o.recipe]}, nontrivial, label=label,
               sample={"recipe": o.recipe, "source": o.src, "asm": o.asm})
        h.count("calls", o.calls)
        h.count("params>=7" if n >= 7 else "params<=6")
        if o.maxlive >= 8:
            h.count("maxlive>=8")
        if o.csr:
            h.count("mentions_callee_saved_reg")
        for ft in present(o.recipe):
            h.count("has_" + ft)
        if not o.recipe["ret"]:
            h.count("void")
    reports = reports_of(outs)
    reports.sort(key=lambda r: 0 if h.known_for({k: str(v) for k, v in r[0].items()}) else 1)
    for sig, rcp, detail in reports:
        h.mismatch(sig, rcp, detail)


def replay(h, recipe):
    with session() as sess:
        run_batch(h, sess, recipe, "replay")


# ------------------------------------------------------------------------------------------------
# generators
# ------------------------------------------------------------------------------------------------

def func_strategy(supported, slot=0):
    """supported: list of (kind, t) binary ops the pipeline accepts. Choices are arranged so that the
    all-minimal draw (what Hypothesis tries first and is biased towards) is an ordinary function, and
    the choice lists are rotated by the function's slot in the batch so that the all-minimal BATCH is 16
    different functions rather than 16 copies."""
    kinds_by_t = {t: [k for k, tt in supported if tt == t] for t in (0, 1)}
    value = st.one_of(st.sampled_from(BOUNDARY), st.sampled_from(BOUNDARY), st.sampled_from(BOUNDARY),
                      st.integers(0, M64))
    # most constants fit a sign-extended 32-bit immediate (the backend rejects wider ones: measured)
    small = st.one_of(st.sampled_from(CONSTS), st.integers(-(1 << 31), (1 << 31) - 1))
    big = st.one_of(st.sampled_from(BIG_CONSTS), st.integers(-(1 << 63), (1 << 63) - 1))

    @st.composite
    def fn(draw):
        def rare(n):
            return draw(st.integers(0, n - 1)) == n - 1

        def rot(lst, k):
            k %= len(lst)
            return lst[k:] + lst[:k]

        shape = draw(st.sampled_from(rot(["fan", "dag", "chain", "dag", "fan"], slot)))
        nargs = draw(st.sampled_from(rot([7, 3, 0, 8, 1, 10, 2, 6, 4, 9, 5, 7, 6, 8], slot)))
        tymode = draw(st.sampled_from(rot([0, 1, 2, 0, 0], slot // 2)))
        if tymode == 2:
            args = draw(st.lists(st.sampled_from([0, 1]), min_size=nargs, max_size=nargs))
        else:
            args = [tymode] * nargs
        usable = [t for t in (0, 1) if kinds_by_t[t]]
        want = {0, 1} if tymode == 2 else {tymode}
        tset = sorted(want & set(usable)) or usable[:1]
        size = {0: args.count(0), 1: args.count(1)}
        ops = []

        def emit_const(t):
            ops.append(["const", t, draw(big) if rare(16) else draw(small), 0])
            size[t] += 1

        def emit_bin(t, a, b):
            ops.append([draw(st.sampled_from(kinds_by_t[t])), t, a, b])
            size[t] += 1

        def pick(t, recent):
            n = size[t]
            if recent and draw(st.booleans()):
                return n - 1
            return n - 1 - draw(st.integers(0, n - 1))

        for t in tset:
            if size[t] == 0:
                emit_const(t)
        if shape == "fan":
            t = draw(st.sampled_from(tset))
            # register pressure: the allocator never reuses the registers of the parameters
            hi = max(4, 12 - min(nargs, 6))
            m = hi + 2 - draw(st.integers(0, hi - 1))
            first = base = size[t]
            for _ in range(m):
                if rare(5):
                    emit_const(t)
                else:
                    emit_bin(t, base - 1 - draw(st.integers(0, base - 1)), draw(st.integers(0, base - 1)))
            for i in range(1, m):
                # reduce: acc = acc op leaf_i ; acc is the newest value of type t
                emit_bin(t, size[t] - 1 if i > 1 else first, first + i)
            ret = [t, size[t] - 1]
        else:
            nops = 1 + draw(st.integers(0, 21 if shape == "dag" else 11))
            for _ in range(nops):
                t = draw(st.sampled_from(tset))
                if rare(6):
                    emit_const(t)
                else:
                    emit_bin(t, pick(t, True), pick(t, shape == "chain"))
            t = draw(st.sampled_from(tset)) if rare(6) else ops[-1][1]
            ret = [t, draw(st.integers(0, size[t] - 1))] if rare(4) else [t, size[t] - 1]
            if rare(30):
                ret = []
        nvec = draw(st.integers(2, 4))
        vecs = [[draw(value) for _ in range(nargs)] for _ in range(nvec)]
        return {"args": args, "ops": ops, "ret": ret, "vecs": vecs}

    return fn()


def probe(h, sess):
    """Which (binary op kind, type) does the pipeline accept at all? One-op functions, judged natively."""
    pairs = [(kind, t) for kind in BIN_KINDS for t in (0, 1)]
    rcps = [{"args": [t, t], "ops": [[kind, t, 0, 1]], "ret": [t, 2],
             "vecs": [[0x123456789, 0xFEDCBA9876543210], [5, 3]]} for kind, t in pairs]
    outs = evaluate(sess, rcps)
    supported = []
    for (kind, t), o in zip(pairs, outs):
        if o.status == "rejected":
            h.exclude(f"op_unsupported:{kind}:{TYS[t]}:{o.label.split(':')[1]}")
        else:
            supported.append((kind, t))
            h.count(f"probe_supported:{kind}:{TYS[t]}")
    for sig, r, detail in reports_of(outs):
        h.mismatch(sig, r, detail)
    return supported


def selftest(sess):
    """The trampoline/child machinery must see what hand-written functions do (else: harness error)."""
    x = sess.x
    pre = ".intel_syntax noprefix\n.text\n"
    texts = [
        ("vts_sum", pre + ".globl vts_sum\nvts_sum:\n mov rax, rdi\n add rax, r9\n add rax, [rsp+8]\n"
                          " add rax, [rsp+32]\n ret\n"),
        ("vts_clob", pre + ".globl vts_clob\nvts_clob:\n mov r13d, edi\n mov rax, rsi\n ret\n"),
        ("vts_bad", pre + ".globl vts_bad\nvts_bad:\n mov rax, ebx\n ret\n"),
        ("vts_rsp", pre + ".globl vts_rsp\nvts_rsp:\n pop rax\n sub rsp, 16\n jmp rax\n"),
        ("vts_segv", pre + ".globl vts_segv\nvts_segv:\n push rbx\n ret\n"),
    ]
    so, errors, good = sess.tb.assemble(texts)
    assert set(errors) == {"vts_bad"} and "mismatch" in errors["vts_bad"][0], errors
    res = x.run(so, [("vts_sum", [[1, 2, 3, 4, 5, 600, 7000, 8, 9, 100000]]),
                     ("vts_segv", [[1], [2]]), ("vts_clob", [[7, 9]]), ("vts_rsp", [[]]),
                     ("vts_sum", [[1, 2, 3, 4, 5, 6, 7]])])
    a = res[(0, 0)]
    assert a[0] == "ok" and a[1]["rax"] == 1 + 600 + 7000 + 100000, a
    assert all(a[1][r] == x.SENTINELS[r] for r in x.CALLEE_SAVED) and a[1]["rsp_after"] == a[1]["rsp_before"]
    assert a[1]["rsp_before"] % 16 == 0, a
    assert res[(1, 0)][0] == "crash" and (1, 1) not in res, res
    c = res[(2, 0)]
    assert c[0] == "ok" and c[1]["rax"] == 9 and c[1]["r13"] == 7 and c[1]["rbx"] == x.SENTINELS["rbx"], c
    d = res[(3, 0)]
    assert d[0] == "ok" and d[1]["rsp_after"] - d[1]["rsp_before"] == -16, d
    assert res[(4, 0)][0] == "ok" and res[(4, 0)][1]["rsp_before"] % 16 == 0


def checks(h):
    with session() as sess:
        if h.shard == 0:
            selftest(sess)
            h.count("trampoline_selftest_passed")
        supported = probe(h, sess)
        if not supported:
            raise AssertionError("the pipeline accepts none of the probed arith ops")
        bsize = 16
        batches = st.tuples(*[func_strategy(supported, i + 5 * h.shard) for i in range(bsize)]).map(
            lambda fs: {"funcs": list(fs)})

        import time
        t_end = time.time() + (420.0 if h.quick else 2400.0)   # wall budget only; a hit is inconclusive

        def body(batch):
            if time.time() > t_end and not h._shrinking:
                h.inconclusive("shard_wall_budget_batches_skipped")
                return
            run_batch(h, sess, batch, "generated")

        h.hyp("batches", batches, body, h.scale(12, 160), 1, shrink_budget_s=40.0)
