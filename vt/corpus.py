"""The repository's .mlir corpus as a source of realistic IR.

chunks()                 -> list[(relpath, index, text)]  every *.mlir under tests/ and docs/ split on `// -----`
make_ctx(unreg=True)     -> Context with every dialect registered lazily (as xdsl-opt does)
parse_chunk(text)        -> verified ModuleOp or None (parse/verify diagnostics -> None)
verified_modules(...)    -> iterate (key, text, module) over chunks that parse and verify
Nothing is cached across runs; the corpus is read from the working tree the check imports xdsl from.
"""
from __future__ import annotations

import os
import re
from functools import lru_cache


def repo_root() -> str:
    import xdsl
    return os.path.dirname(os.path.dirname(os.path.abspath(xdsl.__file__)))


_SPLIT = re.compile(r"^// -----.*$", re.M)


@lru_cache(maxsize=1)
def chunks() -> list[tuple[str, int, str]]:
    root = repo_root()
    out = []
    for sub in ("tests", "docs"):
        for dp, dn, fn in os.walk(os.path.join(root, sub)):
            dn.sort()
            for f in sorted(fn):
                if not f.endswith(".mlir"):
                    continue
                p = os.path.join(dp, f)
                try:
                    text = open(p, encoding="utf-8").read()
                except (OSError, UnicodeDecodeError):
                    continue
                rel = os.path.relpath(p, root)
                for i, part in enumerate(_SPLIT.split(text)):
                    if part.strip():
                        out.append((rel, i, part))
    return out


def make_ctx(unreg: bool = True):
    from xdsl.context import Context
    from xdsl.dialects import get_all_dialects
    ctx = Context(allow_unregistered=unreg)
    for name, factory in get_all_dialects().items():
        ctx.register_dialect(name, factory)
    return ctx


def reset_global_state() -> None:
    """The builtin dialect keeps a process-global dense-resource handle table; parsing the same
    text twice in one process renames handles (`foo` -> `foo_0`). Reset it between iterations."""
    from xdsl.dialect_interfaces.op_asm import OpAsmDialectInterface
    OpAsmDialectInterface._blob_storage.clear()  # class-level dict shared by every Context


def parse_chunk(text: str, unreg: bool = True, verify: bool = True):
    """Parse (and verify) one chunk in a fresh context; None if the chunk is rejected with a diagnostic."""
    from xdsl.parser import Parser
    from xdsl.utils.exceptions import DiagnosticException, ParseError
    reset_global_state()
    ctx = make_ctx(unreg)
    try:
        m = Parser(ctx, text).parse_module()
        if verify:
            m.verify()
        return m
    except (ParseError, DiagnosticException):
        return None
    except Exception:
        # internal errors on corpus inputs are C07's business, not the corpus loader's
        return None


def verified_modules(shard: int = 0, nshards: int = 1, max_len: int | None = None):
    for i, (rel, idx, text) in enumerate(chunks()):
        if i % nshards != shard:
            continue
        if max_len is not None and len(text) > max_len:
            continue
        m = parse_chunk(text)
        if m is not None:
            yield (f"{rel}#{idx}", text, m)
