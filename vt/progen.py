"""progen -- typed, executable programs: Hypothesis recipe strategies + deterministic builder.

    program_recipes(features_=None, **overrides) -> SearchStrategy[recipe]   (feature dict and/or keyword flags)
    recursive_recipes(features_=None, **overrides) -> SearchStrategy[recipe]  bounded (mutual) recursion, "rec" funcs
    build(recipe) -> ModuleOp          valid by construction; module.verify() is asserted (failure = generator bug)
    input_vectors(func_recipe, n, ints, index_bits=64) -> [tuple of refsem-form argument values]
    entry(recipe) -> (function name, func_recipe)      the last function; it may call the earlier ones
    signature(func_recipe) -> (arg type names, result type names)
    features(**overrides) -> feature dict;   op_counts(module) -> {op name: n};   render(module) -> str

Recipe grammar (plain JSON; every integer is free: `build` reduces it modulo what is available)
    recipe = {"funcs": [func, ...], "inputs": [int, ...], "ib": 32|64 (width of index constants, default 64)}
    func   = {"args": [T...], "body": [stmt...], "ret": [[T, ref]...],
              "term": term, "blocks": [{"args": [T...], "body": [stmt...], "term": term,
                                         "loop": null | {"n": bound, "next": [ref...]}}...]}   (cf part optional)
    T      = "i1" | "i8" | "i16" | "i32" | "i64" | "iN" | "index" | "f32" | "f64" | "memref<NxT>"
    ref    = int: index modulo the number of VISIBLE values OF THE REQUIRED TYPE, counted BACKWARDS from the most
             recent one (0 = latest; visible = results of earlier ops of the block, block/function arguments,
             enclosing blocks, and -- in a non-entry CFG block -- the entry block); if there is none a boundary
             constant of that type is materialised.  So every recipe builds.
    bound  = {"c": int}  constant, clamped to a small range   |   {"r": ref, "m": int, "o": int}  (x & m) + o
             either form with "hoist": 1 -> the bound's ops are emitted (and its ref resolved) at the top level of
             the enclosing function block, in front of the outermost enclosing statement (loop nests whose bounds
             are defined outside: perfectly nested loops)
    stmt   = {"op": "const", "t": T, "v": int}                     ints: value mod 2^w; floats: BIT PATTERN
           | {"op": <int binary>, "t": T, "a": ref, "b": ref, "safe": 0|1, "flags": ["nsw","nuw"]}
                 addi subi muli andi ori xori minsi maxsi minui maxui divsi divui remsi remui floordivsi
                 ceildivsi ceildivui shli shrsi shrui addui_extended mulsi_extended mului_extended
                 safe=1: divisor is or-ed with 1, shift amount is masked to < width (fewer POISON runs)
           | {"op": "cmpi", "t": T, "p": 0..9, "a": ref, "b": ref} | {"op": "select", "t": T, "c", "a", "b"}
           | {"op": "extsi"|"extui"|"trunci"|"index_cast", "from": T, "to": T, "a": ref}
           | {"op": "addf"|"subf"|"mulf"|"divf"|"minimumf"|"maximumf"|"minnumf"|"maxnumf", "t": FT, "a", "b"}
           | {"op": "negf", "t": FT, "a"} | {"op": "cmpf", "t": FT, "p": 0..15, "a", "b"}
           | {"op": "sitofp"|"uitofp"|"fptosi"|"fptoui"|"extf"|"truncf"|"bitcast", "from": T, "to": T, "a"}
           | {"op": "dup", "k": int}                               clone of an earlier pure op (CSE fodder)
           | {"op": "if", "c": ref, "res": [T...], "then": [stmt...], "ty": [ref...], "else": [...], "ey": [...]}
           | {"op": "for", "t": T, "lb": bound, "ub": bound, "step": bound, "iters": [[T, ref]...],
              "body": [stmt...], "y": [ref...]}                    step > 0 by construction (1..4)
           | {"op": "while", "t": T, "n": bound, "iters": [[T, ref]...], "body": [...], "y": [ref...]}  countdown
           | {"op": "iswitch", "v": bound, "res": [T...], "cases": [[int, [stmt...], [ref...]]...],
              "default": [[stmt...], [ref...]]}
           | {"op": "call", "k": int, "args": [[T, ref]...], "res": [T...]}       external declaration
           | {"op": "callf", "f": int, "args": [ref...]}                           an EARLIER function
           | {"op": "print", "k": int, "args": [[T, ref]...]} | {"op": "unk", "k": int, "args": [[T, ref]...]}
           | {"op": "alloc", "t": T, "n": 1|2|4, "v": int} | {"op": "store", "t", "n", "m": ref, "i": bound, "v": ref}
           | {"op": "load", "t", "n", "m": ref, "i": bound}        indices are in bounds by construction
           | {"op": "affine_apply", "e": expr, "args": [ref...]}   expr = ["d",i] ["s",i] ["c",n] ["+",e,e]
                                                                    ["*",e,n] ["mod"|"floordiv"|"ceildiv",e,n>0]
           | {"op": "affine_for", "lb": bound, "ub": bound, "step": int, "iters", "body", "y"}
           | {"op": "affine_if", "v": ref, "c": int, "kind": 0..2, "res", "then", "ty", "else", "ey"}
           | {"op": "affine_load"|"affine_store", "t", "n", "m": ref, "i": ref, "k": int, "c": int, "v": ref}
           | {"op": "sym_decl", "t": T, "v": ref}                  symref.declare of a fresh symbol + initialising
                                                                    symref.update (lexically scoped like a value)
           | {"op": "sym_fetch", "k": int} | {"op": "sym_update", "k": int, "v": ref}
                                                                    k selects a visible symbol (0 = latest); no-op
                                                                    if none is visible
    term   = {"k": "ret"} | {"k": "br", "to": int, "args": [ref...]}
           | {"k": "cond", "c": ref, "to": int, "args": [...], "fto": int, "fargs": [...]}
           | {"k": "switch", "t": T, "v": ref, "cases": [[int, to, [ref...]]...], "to": int, "args": [...]}
             targets are FORWARD blocks only (acyclic); a block with "loop" is a bounded self-loop with its own
             down-counter followed by an exit block that runs the block's term.
Unknown op names / malformed types raise RecipeError (a ValueError).
"""
from __future__ import annotations

import struct

from hypothesis import strategies as st

__all__ = ["program_recipes", "recursive_recipes", "build", "input_vectors", "entry", "signature", "features", "op_counts",
           "render", "RecipeError", "boundary_ints", "boundary_float_bits", "DEFAULT_FEATURES"]


class RecipeError(ValueError):
    pass


INT_BIN = {
    "int_arith": ["addi", "subi", "muli", "andi", "ori", "xori"],
    "minmax": ["minsi", "maxsi", "minui", "maxui"],
    "div": ["divsi", "divui", "remsi", "remui", "floordivsi", "ceildivsi", "ceildivui"],
    "shifts": ["shli", "shrsi", "shrui"],
    "ext_arith": ["addui_extended", "mulsi_extended", "mului_extended"],
}
FLOAT_BIN = ["addf", "subf", "mulf", "divf", "minimumf", "maximumf", "minnumf", "maxnumf"]
INT_CASTS = ["extsi", "extui", "trunci", "index_cast"]
FLOAT_CASTS = ["sitofp", "uitofp", "fptosi", "fptoui", "extf", "truncf", "bitcast"]
_ALL_INT_BIN = [n for v in INT_BIN.values() for n in v]
_DIVS = set(INT_BIN["div"])
_SHIFTS = set(INT_BIN["shifts"])

DEFAULT_FEATURES = {
    "int_types": ["i1", "i8", "i16", "i32", "i64", "index"],
    "float_types": ["f32", "f64"],
    "ops": ["int_arith", "minmax", "div", "shifts", "cmp", "select", "casts", "ext_arith",
            "float_arith", "float_cmp", "float_casts"],
    "control": ["scf_if", "scf_for", "scf_while", "index_switch", "cf"],
    "effects": ["call", "print", "memref"],
    "op_names": None,          # optional whitelist of concrete op names: "addi", "cmpi", "scf.if", "cf.cond_br", ...
    "affine": False,
    "symref": False,           # symref.declare/fetch/update statements (frontend-desymrefy)
    "overflow_flags": False,
    "internal_calls": True,
    "dup": True,
    "unknown_ops": False,
    "memref_args": False,
    "size": 8,                 # statements in a function body (nested bodies: <= 4)
    "max_funcs": 2,
    "max_args": 3,
    "max_rets": 2,
    "max_depth": 2,
    "max_blocks": 3,
    "n_inputs": 4,
    "index_bits": 64,
}


def features(base=None, **overrides) -> dict:
    f = dict(DEFAULT_FEATURES)
    if base:
        f.update(base)
    f.update(overrides)
    unknown = set(f) - set(DEFAULT_FEATURES)
    if unknown:
        raise ValueError(f"unknown progen features: {sorted(unknown)}")
    return f


# ---------------------------------------------------------------------------------------------
# types and boundary values
# ---------------------------------------------------------------------------------------------

def _is_int(t: str) -> bool:
    return t == "index" or (t[:1] == "i" and t[1:].isdigit() and int(t[1:]) > 0)


def _is_float(t: str) -> bool:
    return t in ("f16", "f32", "f64")


def _width(t: str, index_bits: int = 64) -> int:
    if t == "index":
        return index_bits
    if _is_int(t):
        return int(t[1:])
    if _is_float(t):
        return int(t[1:])
    raise RecipeError(f"bad type {t!r}")


def _memref_parts(t: str):
    if not (isinstance(t, str) and t.startswith("memref<") and t.endswith(">")):
        raise RecipeError(f"bad memref type {t!r}")
    import re
    mm = re.fullmatch(r"((?:\d+x)+)(.+)", t[7:-1])
    if not mm:
        raise RecipeError(f"bad memref type {t!r}")
    shape = [int(p) for p in mm.group(1)[:-1].split("x")]
    elem = mm.group(2)
    if not shape or any(s <= 0 for s in shape) or not (_is_int(elem) or _is_float(elem)):
        raise RecipeError(f"bad memref type {t!r}")
    return shape, elem


_tycache: dict = {}


def xtype(t: str):
    """xDSL type attribute for a type name."""
    if t in _tycache:
        return _tycache[t]
    from xdsl.dialects import builtin as b
    if not isinstance(t, str):
        raise RecipeError(f"bad type {t!r}")
    if t == "index":
        r = b.IndexType()
    elif _is_int(t):
        r = b.IntegerType(int(t[1:]))
    elif t == "f16":
        r = b.Float16Type()
    elif t == "f32":
        r = b.Float32Type()
    elif t == "f64":
        r = b.Float64Type()
    elif t.startswith("memref<"):
        shape, elem = _memref_parts(t)
        r = b.MemRefType(xtype(elem), shape)
    else:
        raise RecipeError(f"bad type {t!r}")
    _tycache[t] = r
    return r


def boundary_ints(t: str, index_bits: int = 64) -> list[int]:
    """Boundary values of an integer type as SIGNED ints (0, +-1, min, max, top-bit patterns, shift amounts)."""
    w = _width(t, index_bits)
    m = (1 << w) - 1
    raw = [0, 1, -1, 2, -2, (1 << (w - 1)) - 1, -(1 << (w - 1)), (1 << (w - 1)) - 2, -(1 << (w - 1)) + 1,
           0x5555555555555555 & m, 0xAAAAAAAAAAAAAAAA & m, w, w - 1, w + 1, 3, 7, 10, -3, -7, (1 << (w // 2)),
           (1 << (w // 2)) - 1]
    if t == "index" and index_bits == 64:
        raw += [(1 << 31) - 1, -(1 << 31), 1 << 31, (1 << 32) - 1, 1 << 32]
    out, seen = [], set()
    for v in raw:
        v &= m
        if v >> (w - 1):
            v -= 1 << w
        if v not in seen:
            seen.add(v)
            out.append(v)
    return out


_FMT = {"f16": ("<e", "<H"), "f32": ("<f", "<I"), "f64": ("<d", "<Q")}


def _fbits(x: float, t: str) -> int:
    fmt, ifmt = _FMT[t]
    return struct.unpack(ifmt, struct.pack(fmt, x))[0]


def _ffrom(bits: int, t: str) -> float:
    fmt, ifmt = _FMT[t]
    return struct.unpack(fmt, struct.pack(ifmt, bits & ((1 << _width(t)) - 1)))[0]


def boundary_float_bits(t: str) -> list[int]:
    """Bit patterns: +-0, +-1, +-inf, NaN, subnormals, min normal, max finite, values that round, ..."""
    w = _width(t)
    mant = {"f16": 10, "f32": 23, "f64": 52}[t]
    sign = 1 << (w - 1)
    expmask = ((1 << (w - 1 - mant)) - 1) << mant
    pos = [0, _fbits(1.0, t), expmask, expmask | (1 << (mant - 1)), 1, (1 << mant) - 1, 1 << mant,
           expmask - 1, _fbits(0.1, t), _fbits(0.2, t), _fbits(0.5, t), _fbits(1.5, t), _fbits(2.0, t),
           _fbits(3.0, t), _fbits(float(1 << (mant + 1)), t), _fbits(float((1 << (mant + 1)) - 1), t),
           _fbits(255.0, t), _fbits(256.0, t), _fbits(0.3, t), _fbits(1e-3, t), _fbits(127.5, t),
           _fbits(float(2 ** 31), t) if t != "f16" else _fbits(2048.0, t),
           _fbits(float(2 ** 63), t) if t != "f16" else _fbits(1023.5, t)]
    out = []
    for p in pos:
        for v in (p, p | sign):
            if v not in out:
                out.append(v)
    return out


# ---------------------------------------------------------------------------------------------
# builder
# ---------------------------------------------------------------------------------------------

class _Scope:
    __slots__ = ("parent", "vals")

    def __init__(self, parent=None):
        self.parent = parent
        self.vals = []

    def add(self, v, t):
        self.vals.append((v, t))

    def visible(self, t):
        chain = []
        s = self
        while s is not None:
            chain.append(s)
            s = s.parent
        out = []
        for s in reversed(chain):
            out.extend(v for v, ty in s.vals if ty == t)
        return out


class _Ctx:
    __slots__ = ("ops", "scope", "pure")

    def __init__(self, scope):
        self.ops = []
        self.scope = scope
        self.pure = []


def _g(d, k, default=0):
    v = d.get(k, default) if isinstance(d, dict) else default
    return default if v is None else v


def _int(v, default=0):
    return v if isinstance(v, int) and not isinstance(v, bool) else default


def _presig(fr):
    """(argument type names, result type names) of a function recipe, checked."""
    atys = []
    for t in fr.get("args") or []:
        xtype(t)
        atys.append(t)
    rtys = []
    for p_ in fr.get("ret") or []:
        if isinstance(p_, (list, tuple)) and len(p_) == 2:
            xtype(p_[0])
            rtys.append(p_[0])
    return atys, rtys


class _Builder:
    def __init__(self, recipe):
        self.recipe = recipe
        self.ib = 32 if recipe.get("ib") == 32 else 64      # width used to normalise index constants
        self.externs = {}
        self.sigs = []          # (arg tys, ret tys) of built functions
        self.unreg = {}
        self.root_ctx = None    # _Ctx of the function-level block being built (target of hoisted bounds)
        self.nsym = 0           # symref symbols declared so far (names are unique in the module)

    # ---- emission helpers ------------------------------------------------------------------
    def emit(self, ctx, op, tys=(), pure=False):
        ctx.ops.append(op)
        for r, t in zip(op.results, tys):
            ctx.scope.add(r, t)
        if pure:
            ctx.pure.append((op, tuple(tys)))
        return op

    def const(self, ctx, t, v, visible=True):
        from xdsl.dialects import arith, builtin as b
        if _is_int(t):
            w = _width(t, self.ib)
            v = _int(v) & ((1 << w) - 1)
            if v >> (w - 1):
                v -= 1 << w
            op = arith.ConstantOp(b.IntegerAttr(v, xtype(t)))
        elif _is_float(t):
            op = arith.ConstantOp(b.FloatAttr(_ffrom(_int(v), t), xtype(t)))
        else:
            raise RecipeError(f"no constants of type {t!r}")
        ctx.ops.append(op)
        if visible:
            ctx.scope.add(op.results[0], t)
        return op.results[0]

    def ref(self, ctx, t, idx):
        if t.startswith("memref<"):
            c = ctx.scope.visible(t)
            if c:
                return c[-1 - (_int(idx) % len(c))]
            return self.alloc(ctx, t, _int(idx))
        c = ctx.scope.visible(t)
        if c:
            return c[-1 - (_int(idx) % len(c))]      # 0 = the most recent value: small refs build chains
        if _is_int(t):
            bs = boundary_ints(t, self.ib)
            return self.const(ctx, t, bs[_int(idx) % len(bs)])
        if _is_float(t):
            bs = boundary_float_bits(t)
            return self.const(ctx, t, bs[_int(idx) % len(bs)])
        raise RecipeError(f"bad type {t!r}")

    def typed_refs(self, ctx, pairs):
        out = []
        for p in pairs or []:
            if not (isinstance(p, (list, tuple)) and len(p) == 2):
                continue
            t, i = p
            xtype(t)
            out.append((self.ref(ctx, t, i), t))
        return out

    def bound(self, ctx, t, b, lo, hi, sym_mask=15):
        """Small value of int type t: constant clamped to [lo, hi], or (x & m) + o with m <= sym_mask."""
        from xdsl.dialects import arith
        if isinstance(b, dict) and _int(b.get("hoist")) and self.root_ctx is not None:
            ctx = self.root_ctx
        if isinstance(b, dict) and "r" in b:
            x = self.ref(ctx, t, b.get("r"))
            w = _width(t, self.ib)
            m = _int(b.get("m"), 7) & sym_mask & ((1 << (w - 1)) - 1 if w > 1 else 0)
            o = _int(b.get("o"))
            span = max(hi - lo, 0)
            o = lo + (o % (max(span - m, 0) + 1)) if span >= m else lo
            mc = self.const(ctx, t, m, visible=False)
            a = self.emit(ctx, arith.AndIOp(x, mc)).results[0]
            if o == 0:
                return a
            oc = self.const(ctx, t, o, visible=False)
            return self.emit(ctx, arith.AddiOp(a, oc)).results[0]
        c = _int(b.get("c")) if isinstance(b, dict) else _int(b)
        c = lo + (c - lo) % (hi - lo + 1)
        return self.const(ctx, t, c, visible=False)

    def alloc(self, ctx, t, fill):
        from xdsl.dialects import memref
        shape, elem = _memref_parts(t)
        op = memref.AllocOp([], [], xtype(t))
        self.emit(ctx, op, [t])
        m = op.results[0]
        if _is_int(elem):
            bs = boundary_ints(elem, self.ib)
        else:
            bs = boundary_float_bits(elem)
        fv = self.const(ctx, elem, bs[fill % len(bs)], visible=False)
        n = 1
        for s in shape:
            n *= s
        for flat in range(n):
            idxs = []
            r = flat
            for s in reversed(shape):
                idxs.append(r % s)
                r //= s
            ivs = [self.const(ctx, "index", i, visible=False) for i in reversed(idxs)]
            self.emit(ctx, memref.StoreOp.get(fv, m, ivs))
        return m

    def block(self, arg_tys, parent_scope, stmts, depth, finish):
        """New block with args; statements; `finish(ctx, block)` appends the terminator."""
        from xdsl.ir import Block
        blk = Block(arg_types=[xtype(t) for t in arg_tys])
        ctx = _Ctx(_Scope(parent_scope))
        for a, t in zip(blk.args, arg_tys):
            ctx.scope.add(a, t)
        self.stmts(ctx, stmts, depth)
        finish(ctx, blk)
        blk.add_ops(ctx.ops)
        return blk

    def stmts(self, ctx, stmts, depth):
        for s in stmts or []:
            if isinstance(s, dict):
                self.stmt(ctx, s, depth)

    # ---- statements ------------------------------------------------------------------------
    def stmt(self, ctx, s, depth):
        from xdsl.dialects import arith
        op = s.get("op")
        if not isinstance(op, str):
            raise RecipeError(f"statement without op: {s!r}")
        if op == "const":
            t = s.get("t")
            xtype(t)
            if t.startswith("memref<"):
                raise RecipeError("const of memref type")
            self.const(ctx, t, s.get("v"))
            ctx.pure.append((ctx.ops[-1], (t,)))
            return
        if op in _ALL_INT_BIN:
            t = s.get("t")
            if not _is_int(t):
                raise RecipeError(f"{op} on {t!r}")
            a = self.ref(ctx, t, s.get("a"))
            b = self.ref(ctx, t, s.get("b"))
            w = _width(t, self.ib)
            if _g(s, "safe") and op in _DIVS:
                one = self.const(ctx, t, 1, visible=False)
                b = self.emit(ctx, arith.OrIOp(b, one)).results[0]
            elif _g(s, "safe") and op in _SHIFTS:
                lim = min(w, 32) if t == "index" else w
                mk = (1 << (lim.bit_length() - 1)) - 1       # largest 2^k - 1 below the width
                mc = self.const(ctx, t, mk, visible=False)
                b = self.emit(ctx, arith.AndIOp(b, mc)).results[0]
            cls = _arith_cls(op)
            flags = [f for f in (s.get("flags") or []) if f in ("nsw", "nuw")]
            if op in ("addui_extended", "mulsi_extended", "mului_extended"):
                if t == "index" and op == "addui_extended":
                    raise RecipeError("addui_extended on index")
                o = cls(a, b)
                self.emit(ctx, o, [t, "i1"] if op == "addui_extended" else [t, t], pure=True)
                return
            if flags and op in ("addi", "subi", "muli", "shli"):
                o = cls(a, b, None, arith.IntegerOverflowAttr(
                    [arith.IntegerOverflowFlag.NSW if f == "nsw" else arith.IntegerOverflowFlag.NUW
                     for f in sorted(set(flags))]))
            else:
                o = cls(a, b)
            self.emit(ctx, o, [t], pure=True)
            return
        if op == "cmpi":
            t = s.get("t")
            if not _is_int(t):
                raise RecipeError(f"cmpi on {t!r}")
            a = self.ref(ctx, t, s.get("a"))
            b = self.ref(ctx, t, s.get("b"))
            self.emit(ctx, arith.CmpiOp(a, b, _int(s.get("p")) % 10), ["i1"], pure=True)
            return
        if op == "select":
            t = s.get("t")
            xtype(t)
            c = self.ref(ctx, "i1", s.get("c"))
            a = self.ref(ctx, t, s.get("a"))
            b = self.ref(ctx, t, s.get("b"))
            self.emit(ctx, arith.SelectOp(c, a, b), [t], pure=True)
            return
        if op in INT_CASTS or op in FLOAT_CASTS:
            self.cast(ctx, s, op)
            return
        if op in FLOAT_BIN:
            t = s.get("t")
            if not _is_float(t):
                raise RecipeError(f"{op} on {t!r}")
            a = self.ref(ctx, t, s.get("a"))
            b = self.ref(ctx, t, s.get("b"))
            self.emit(ctx, _arith_cls(op)(a, b), [t], pure=True)
            return
        if op == "negf":
            t = s.get("t")
            if not _is_float(t):
                raise RecipeError(f"negf on {t!r}")
            self.emit(ctx, arith.NegfOp(self.ref(ctx, t, s.get("a"))), [t], pure=True)
            return
        if op == "cmpf":
            t = s.get("t")
            if not _is_float(t):
                raise RecipeError(f"cmpf on {t!r}")
            a = self.ref(ctx, t, s.get("a"))
            b = self.ref(ctx, t, s.get("b"))
            self.emit(ctx, arith.CmpfOp(a, b, _int(s.get("p")) % 16), ["i1"], pure=True)
            return
        if op == "dup":
            if ctx.pure:
                src, tys = ctx.pure[_int(s.get("k")) % len(ctx.pure)]
                self.emit(ctx, src.clone(), tys, pure=False)
            return
        h = getattr(self, "s_" + op, None)
        if h is None:
            raise RecipeError(f"unknown statement {op!r}")
        h(ctx, s, depth)

    def cast(self, ctx, s, op):
        from xdsl.dialects import arith
        f, t = s.get("from"), s.get("to")
        xtype(f)
        xtype(t)
        ok = False
        if op in ("extsi", "extui"):
            ok = _is_int(f) and _is_int(t) and "index" not in (f, t) and _width(f) < _width(t)
        elif op == "trunci":
            ok = _is_int(f) and _is_int(t) and "index" not in (f, t) and _width(f) > _width(t)
        elif op == "index_cast":
            ok = _is_int(f) and _is_int(t) and ((f == "index") != (t == "index"))
        elif op in ("sitofp", "uitofp"):
            ok = _is_int(f) and f != "index" and _is_float(t)
        elif op in ("fptosi", "fptoui"):
            ok = _is_float(f) and _is_int(t) and t != "index"
        elif op == "extf":
            ok = _is_float(f) and _is_float(t) and _width(f) < _width(t)
        elif op == "truncf":
            ok = _is_float(f) and _is_float(t) and _width(f) > _width(t)
        elif op == "bitcast":
            ok = ((_is_float(f) and _is_int(t)) or (_is_int(f) and _is_float(t))) and "index" not in (f, t) \
                and _width(f) == _width(t)
        if not ok:
            return      # not a valid combination: the statement is a no-op
        a = self.ref(ctx, f, s.get("a"))
        self.emit(ctx, _arith_cls(op)(a, xtype(t)), [t], pure=True)

    # ---- structured control flow -----------------------------------------------------------
    def _res_types(self, s, key="res"):
        out = []
        for t in s.get(key) or []:
            xtype(t)
            out.append(t)
        return out

    def _yield_refs(self, ctx, tys, refs):
        refs = list(refs or [])
        return [self.ref(ctx, t, refs[i] if i < len(refs) else i) for i, t in enumerate(tys)]

    def s_if(self, ctx, s, depth):
        from xdsl.dialects import scf
        from xdsl.ir import Region
        c = self.ref(ctx, "i1", s.get("c"))
        tys = self._res_types(s)

        def fin(key):
            def f(c2, blk):
                c2.ops.append(scf.YieldOp(*self._yield_refs(c2, tys, s.get(key))))
            return f
        tb = self.block([], ctx.scope, s.get("then"), depth + 1, fin("ty"))
        eb = self.block([], ctx.scope, s.get("else"), depth + 1, fin("ey"))
        self.emit(ctx, scf.IfOp(c, [xtype(t) for t in tys], Region(tb), Region(eb)), tys)

    def _iters(self, ctx, s):
        its = self.typed_refs(ctx, s.get("iters"))
        return [v for v, _ in its], [t for _, t in its]

    def s_for(self, ctx, s, depth):
        from xdsl.dialects import scf
        t = s.get("t", "index")
        if not _is_int(t) or _width(t, self.ib) < 8:
            raise RecipeError(f"scf.for over {t!r}")
        lb = self.bound(ctx, t, s.get("lb"), -6, 10)
        ub = self.bound(ctx, t, s.get("ub"), -6, 12)
        st_ = self.bound(ctx, t, s.get("step"), 1, 4, sym_mask=3)
        inits, itys = self._iters(ctx, s)

        def fin(c2, blk):
            c2.ops.append(scf.YieldOp(*self._yield_refs(c2, itys, s.get("y"))))
        body = self.block([t] + itys, ctx.scope, s.get("body"), depth + 1, fin)
        self.emit(ctx, scf.ForOp(lb, ub, st_, inits, body), itys)

    def s_while(self, ctx, s, depth):
        from xdsl.dialects import arith, scf
        from xdsl.ir import Region
        t = s.get("t", "i32")
        if not _is_int(t) or _width(t, self.ib) < 8:
            raise RecipeError(f"scf.while counter of type {t!r}")
        n = self.bound(ctx, t, s.get("n"), -2, 8)
        inits, itys = self._iters(ctx, s)

        def fin_before(c2, blk):
            z = self.const(c2, t, 0, visible=False)
            cond = arith.CmpiOp(blk.args[0], z, "sgt")
            c2.ops.append(cond)
            c2.ops.append(scf.ConditionOp(cond.results[0], *blk.args))

        def fin_after(c2, blk):
            ys = self._yield_refs(c2, itys, s.get("y"))
            one = self.const(c2, t, 1, visible=False)
            dec = arith.SubiOp(blk.args[0], one)
            c2.ops.append(dec)
            c2.ops.append(scf.YieldOp(dec.results[0], *ys))
        before = self.block([t] + itys, ctx.scope, [], depth + 1, fin_before)
        after = self.block([t] + itys, ctx.scope, s.get("body"), depth + 1, fin_after)
        self.emit(ctx, scf.WhileOp([n] + inits, [xtype(x) for x in [t] + itys], Region(before), Region(after)),
                  [t] + itys)

    def s_iswitch(self, ctx, s, depth):
        from xdsl.dialects import builtin as b, scf
        from xdsl.ir import Region
        v = self.bound(ctx, "index", s.get("v"), -1, 6, sym_mask=7)
        tys = self._res_types(s)
        vals, regions = [], []

        def fin(refs):
            def f(c2, blk):
                c2.ops.append(scf.YieldOp(*self._yield_refs(c2, tys, refs)))
            return f
        for c in s.get("cases") or []:
            if not (isinstance(c, (list, tuple)) and len(c) == 3):
                continue
            cv = _int(c[0]) % 8
            if cv in vals:
                continue
            vals.append(cv)
            regions.append(Region(self.block([], ctx.scope, c[1], depth + 1, fin(c[2]))))
        d = s.get("default")
        if not (isinstance(d, (list, tuple)) and len(d) == 2):
            d = [[], []]
        dreg = Region(self.block([], ctx.scope, d[0], depth + 1, fin(d[1])))
        self.emit(ctx, scf.IndexSwitchOp(v, b.DenseArrayBase.from_list(b.i64, vals), dreg, regions,
                                         [xtype(t) for t in tys]), tys)

    # ---- effects ---------------------------------------------------------------------------
    def s_call(self, ctx, s, depth):
        from xdsl.dialects import func
        args = self.typed_refs(ctx, s.get("args"))
        rtys = self._res_types(s)
        atys = [t for _, t in args]
        if any(t.startswith("memref<") for t in atys + rtys):
            raise RecipeError("external call with memref")
        name = "ext%d_%s__%s" % (_int(s.get("k")) % 3, "_".join(atys), "_".join(rtys))
        self.externs.setdefault(name, (atys, rtys))
        self.emit(ctx, func.CallOp(name, [v for v, _ in args], [xtype(t) for t in rtys]), rtys)

    def s_callf(self, ctx, s, depth):
        from xdsl.dialects import func
        if not self.sigs:
            return
        j = _int(s.get("f")) % len(self.sigs)
        atys, rtys = self.sigs[j]
        refs = list(s.get("args") or [])
        args = [self.ref(ctx, t, refs[i] if i < len(refs) else i) for i, t in enumerate(atys)]
        self.emit(ctx, func.CallOp(f"f{j}", args, [xtype(t) for t in rtys]), rtys)

    def s_print(self, ctx, s, depth):
        from xdsl.dialects import printf
        args = [a for a in self.typed_refs(ctx, s.get("args")) if not a[1].startswith("memref<")]
        fmt = "p%d:" % (_int(s.get("k")) % 4) + " {}" * len(args)
        self.emit(ctx, printf.PrintFormatOp(fmt, *[v for v, _ in args]))

    def s_unk(self, ctx, s, depth):
        from xdsl.dialects.builtin import UnregisteredOp
        args = self.typed_refs(ctx, s.get("args"))
        name = "unk.effect%d" % (_int(s.get("k")) % 3)
        cls = self.unreg.get(name)
        if cls is None:
            cls = self.unreg[name] = UnregisteredOp.with_name(name)
        self.emit(ctx, cls.create(operands=[v for v, _ in args]))

    def _mtype(self, s):
        t = s.get("t", "i32")
        if not (_is_int(t) or _is_float(t)):
            raise RecipeError(f"memref of {t!r}")
        n = _int(s.get("n"), 4)
        n = 1 if n <= 1 else 2 if n <= 3 else 4
        return f"memref<{n}x{t}>", t, n

    def s_alloc(self, ctx, s, depth):
        mt, t, n = self._mtype(s)
        self.alloc(ctx, mt, _int(s.get("v")))

    def s_store(self, ctx, s, depth):
        from xdsl.dialects import memref
        mt, t, n = self._mtype(s)
        m = self.ref(ctx, mt, s.get("m"))
        v = self.ref(ctx, t, s.get("v"))
        i = self.bound(ctx, "index", s.get("i"), 0, n - 1, sym_mask=n - 1)
        self.emit(ctx, memref.StoreOp.get(v, m, [i]))

    def s_load(self, ctx, s, depth):
        from xdsl.dialects import memref
        mt, t, n = self._mtype(s)
        m = self.ref(ctx, mt, s.get("m"))
        i = self.bound(ctx, "index", s.get("i"), 0, n - 1, sym_mask=n - 1)
        self.emit(ctx, memref.LoadOp.get(m, [i]), [t])

    # ---- symref ----------------------------------------------------------------------------
    def s_sym_decl(self, ctx, s, depth):
        from xdsl.dialects import symref
        t = s.get("t", "i32")
        if not (_is_int(t) or _is_float(t)):
            raise RecipeError(f"symref variable of type {t!r}")
        v = self.ref(ctx, t, s.get("v"))
        name = f"s{self.nsym}"
        self.nsym += 1
        self.emit(ctx, symref.DeclareOp(name))
        self.emit(ctx, symref.UpdateOp(name, v))
        ctx.scope.add((name, t), "$sym")

    def s_sym_fetch(self, ctx, s, depth):
        from xdsl.dialects import symref
        syms = ctx.scope.visible("$sym")
        if not syms:
            return
        name, t = syms[-1 - (_int(s.get("k")) % len(syms))]
        self.emit(ctx, symref.FetchOp(name, xtype(t)), [t])

    def s_sym_update(self, ctx, s, depth):
        from xdsl.dialects import symref
        syms = ctx.scope.visible("$sym")
        if not syms:
            return
        name, t = syms[-1 - (_int(s.get("k")) % len(syms))]
        self.emit(ctx, symref.UpdateOp(name, self.ref(ctx, t, s.get("v"))))

    # ---- affine ----------------------------------------------------------------------------
    def _aexpr(self, e, counts):
        # raw expression nodes: the AffineExpr operators simplify/fold (that is code under test elsewhere)
        from xdsl.ir.affine import (AffineBinaryOpExpr, AffineBinaryOpKind, AffineConstantExpr, AffineDimExpr,
                                    AffineSymExpr)
        K = AffineBinaryOpKind
        if not (isinstance(e, (list, tuple)) and e and isinstance(e[0], str)):
            raise RecipeError(f"bad affine expression {e!r}")
        k = e[0]
        if k == "c":
            return AffineConstantExpr(max(-64, min(64, _int(e[1] if len(e) > 1 else 0))))
        if k in ("d", "s"):
            i = _int(e[1] if len(e) > 1 else 0) % 2
            counts[k] = max(counts[k], i + 1)
            return AffineDimExpr(i) if k == "d" else AffineSymExpr(i)
        if k == "+" and len(e) == 3:
            return AffineBinaryOpExpr(K.Add, self._aexpr(e[1], counts), self._aexpr(e[2], counts))
        if k == "*" and len(e) == 3:
            return AffineBinaryOpExpr(K.Mul, self._aexpr(e[1], counts),
                                      AffineConstantExpr(max(-8, min(8, _int(e[2])))))
        if k in ("mod", "floordiv", "ceildiv") and len(e) == 3:
            c = AffineConstantExpr(1 + abs(_int(e[2])) % 8)
            kind = {"mod": K.Mod, "floordiv": K.FloorDiv, "ceildiv": K.CeilDiv}[k]
            return AffineBinaryOpExpr(kind, self._aexpr(e[1], counts), c)
        raise RecipeError(f"bad affine expression {e!r}")

    def s_affine_apply(self, ctx, s, depth):
        from xdsl.dialects import affine, builtin as b
        from xdsl.ir.affine import AffineMap
        counts = {"d": 0, "s": 0}
        e = self._aexpr(s.get("e"), counts)
        refs = list(s.get("args") or [])
        n = counts["d"] + counts["s"]
        ops = [self.ref(ctx, "index", refs[i] if i < len(refs) else i) for i in range(n)]
        self.emit(ctx, affine.ApplyOp(ops, b.AffineMapAttr(AffineMap(counts["d"], counts["s"], (e,)))),
                  ["index"], pure=True)

    def _abound(self, ctx, bd, lo, hi):
        """([operands], AffineMapAttr) for a constant or a symbolic (identity on a clamped symbol) bound."""
        from xdsl.dialects import builtin as b
        from xdsl.ir.affine import AffineConstantExpr, AffineMap, AffineSymExpr
        if isinstance(bd, dict) and "r" in bd:
            v = self.bound(ctx, "index", bd, lo, hi)
            return [v], b.AffineMapAttr(AffineMap(0, 1, (AffineSymExpr(0),)))
        c = _int(bd.get("c")) if isinstance(bd, dict) else _int(bd)
        c = lo + (c - lo) % (hi - lo + 1)
        return [], b.AffineMapAttr(AffineMap(0, 0, (AffineConstantExpr(c),)))

    def s_affine_for(self, ctx, s, depth):
        from xdsl.dialects import affine
        from xdsl.ir import Region
        lbo, lbm = self._abound(ctx, s.get("lb"), -6, 10)
        ubo, ubm = self._abound(ctx, s.get("ub"), -6, 12)
        step = 1 + abs(_int(s.get("step"))) % 4
        inits, itys = self._iters(ctx, s)

        def fin(c2, blk):
            c2.ops.append(affine.YieldOp.get(*self._yield_refs(c2, itys, s.get("y"))))
        body = self.block(["index"] + itys, ctx.scope, s.get("body"), depth + 1, fin)
        self.emit(ctx, affine.ForOp.from_region(lbo, ubo, inits, [xtype(t) for t in itys], lbm, ubm,
                                                Region(body), step), itys)

    def s_affine_if(self, ctx, s, depth):
        from xdsl.dialects import affine, builtin as b
        from xdsl.ir import Region
        from xdsl.ir.affine import (AffineBinaryOpExpr, AffineBinaryOpKind, AffineConstantExpr,
                                    AffineConstraintExpr, AffineConstraintKind, AffineDimExpr, AffineSet)
        v = self.ref(ctx, "index", s.get("v"))
        c = max(-8, min(8, _int(s.get("c"))))
        kind = [AffineConstraintKind.ge, AffineConstraintKind.le, AffineConstraintKind.eq][_int(s.get("kind")) % 3]
        cons = AffineConstraintExpr(kind, AffineBinaryOpExpr(AffineBinaryOpKind.Add, AffineDimExpr(0),
                                                             AffineConstantExpr(-c)),
                                    AffineConstantExpr(0), canonicalize=False)
        tys = self._res_types(s)

        def fin(key):
            def f(c2, blk):
                c2.ops.append(affine.YieldOp.get(*self._yield_refs(c2, tys, s.get(key))))
            return f
        tb = self.block([], ctx.scope, s.get("then"), depth + 1, fin("ty"))
        eb = self.block([], ctx.scope, s.get("else"), depth + 1, fin("ey"))
        op = affine.IfOp.build(operands=[[v]], result_types=[[xtype(t) for t in tys]],
                               properties={"condition": b.AffineSetAttr(AffineSet(1, 0, (cons,)))},
                               regions=[Region(tb), Region(eb)])
        self.emit(ctx, op, tys)

    def _amap(self, s, n):
        from xdsl.dialects import builtin as b
        from xdsl.ir.affine import (AffineBinaryOpExpr, AffineBinaryOpKind as K, AffineConstantExpr, AffineDimExpr,
                                    AffineMap)
        k = max(-4, min(4, _int(s.get("k"), 1)))
        c = max(-8, min(8, _int(s.get("c"))))
        e = AffineBinaryOpExpr(K.Mul, AffineDimExpr(0), AffineConstantExpr(k))
        e = AffineBinaryOpExpr(K.Add, e, AffineConstantExpr(c))
        return b.AffineMapAttr(AffineMap(1, 0, (AffineBinaryOpExpr(K.Mod, e, AffineConstantExpr(n)),)))

    def s_affine_load(self, ctx, s, depth):
        from xdsl.dialects import affine
        mt, t, n = self._mtype(s)
        m = self.ref(ctx, mt, s.get("m"))
        i = self.ref(ctx, "index", s.get("i"))
        self.emit(ctx, affine.LoadOp(m, [i], self._amap(s, n), xtype(t)), [t])

    def s_affine_store(self, ctx, s, depth):
        from xdsl.dialects import affine
        mt, t, n = self._mtype(s)
        m = self.ref(ctx, mt, s.get("m"))
        v = self.ref(ctx, t, s.get("v"))
        i = self.ref(ctx, "index", s.get("i"))
        self.emit(ctx, affine.StoreOp(v, m, [i], self._amap(s, n)))

    # ---- functions and CFGs ----------------------------------------------------------------
    def func(self, i, fr):
        from xdsl.dialects import arith, builtin as b, cf, func
        from xdsl.ir import Block, Region
        if isinstance(fr.get("rec"), dict):
            return self.rec_func(i, fr)
        atys = []
        for t in fr.get("args") or []:
            xtype(t)
            atys.append(t)
        rets = []
        for p in fr.get("ret") or []:
            if isinstance(p, (list, tuple)) and len(p) == 2:
                xtype(p[0])
                rets.append((p[0], p[1]))
        rtys = [t for t, _ in rets]
        specs = [bs for bs in (fr.get("blocks") or []) if isinstance(bs, dict)]
        entry = Block(arg_types=[xtype(t) for t in atys])
        root = _Scope()
        ectx = _Ctx(root)
        for a, t in zip(entry.args, atys):
            root.add(a, t)
        # blocks: index 0 = entry, 1.. = declared blocks; loop blocks get an exit block
        blocks = [entry]
        info = []
        for bs in specs:
            btys = []
            for t in bs.get("args") or []:
                xtype(t)
                btys.append(t)
            loop = bs.get("loop") if isinstance(bs.get("loop"), dict) else None
            blk = Block(arg_types=[xtype(t) for t in (["index"] if loop else []) + btys])
            info.append({"blk": blk, "tys": btys, "loop": loop, "spec": bs,
                         "exit": Block() if loop else None})
            blocks.append(blk)

        def target(cur, to):
            cands = list(range(cur + 1, len(info) + 1))
            if not cands:
                return None
            return cands[_int(to) % len(cands)]

        def jump_args(ctx, j, refs):
            inf = info[j - 1]
            refs = list(refs or [])
            out = []
            if inf["loop"]:
                out.append(self.bound(ctx, "index", inf["loop"].get("n"), -1, 6))
                refs_used = refs
            else:
                refs_used = refs
            for k, t in enumerate(inf["tys"]):
                out.append(self.ref(ctx, t, refs_used[k] if k < len(refs_used) else k))
            return out

        def ret(ctx):
            vals = [self.ref(ctx, t, r) for t, r in rets]
            ctx.ops.append(func.ReturnOp(*vals))

        def term(ctx, cur, tm):
            k = tm.get("k") if isinstance(tm, dict) else "ret"
            if k == "br":
                j = target(cur, tm.get("to"))
                if j is None:
                    return ret(ctx)
                ctx.ops.append(cf.BranchOp(blocks[j], *jump_args(ctx, j, tm.get("args"))))
                return
            if k == "cond":
                j1, j2 = target(cur, tm.get("to")), target(cur, tm.get("fto"))
                if j1 is None or j2 is None:
                    return ret(ctx)
                c = self.ref(ctx, "i1", tm.get("c"))
                a1 = jump_args(ctx, j1, tm.get("args"))
                a2 = jump_args(ctx, j2, tm.get("fargs"))
                ctx.ops.append(cf.ConditionalBranchOp(c, blocks[j1], a1, blocks[j2], a2))
                return
            if k == "switch":
                t = tm.get("t", "i32")
                if not _is_int(t) or t == "index" or _width(t) < 2:
                    raise RecipeError(f"cf.switch on {t!r}")
                jd = target(cur, tm.get("to"))
                if jd is None:
                    return ret(ctx)
                v = self.ref(ctx, t, tm.get("v"))
                w = _width(t)
                cvals, cblocks, cargs = [], [], []
                for c in tm.get("cases") or []:
                    if not (isinstance(c, (list, tuple)) and len(c) == 3):
                        continue
                    cv = _int(c[0]) & ((1 << w) - 1)
                    if cv >> (w - 1):
                        cv -= 1 << w
                    j = target(cur, c[1])
                    if cv in cvals or j is None:
                        continue
                    cvals.append(cv)
                    cblocks.append(blocks[j])
                    cargs.append(jump_args(ctx, j, c[2]))
                da = jump_args(ctx, jd, tm.get("args"))
                cva = b.DenseIntElementsAttr.from_list(b.VectorType(xtype(t), (len(cvals),)), cvals) \
                    if cvals else None
                ctx.ops.append(cf.SwitchOp(v, blocks[jd], da, cva, cblocks, cargs))
                return
            if k in ("ret", None):
                return ret(ctx)
            raise RecipeError(f"unknown terminator {k!r}")

        self.root_ctx = ectx
        self.stmts(ectx, fr.get("body"), 0)
        term(ectx, 0, fr.get("term") if specs else None)
        entry.add_ops(ectx.ops)
        allblocks = [entry]
        for j, inf in enumerate(info, start=1):
            blk, bs = inf["blk"], inf["spec"]
            ctx = _Ctx(_Scope(root))
            bargs = list(blk.args)
            if inf["loop"]:
                cnt = bargs.pop(0)
            for a, t in zip(bargs, inf["tys"]):
                ctx.scope.add(a, t)
            self.root_ctx = ctx
            self.stmts(ctx, bs.get("body"), 0)
            if inf["loop"]:
                one = self.const(ctx, "index", 1, visible=False)
                zero = self.const(ctx, "index", 0, visible=False)
                dec = arith.SubiOp(cnt, one)
                ctx.ops.append(dec)
                cond = arith.CmpiOp(dec.results[0], zero, "sgt")
                ctx.ops.append(cond)
                nxt = list(inf["loop"].get("next") or [])
                again = [dec.results[0]] + [self.ref(ctx, t, nxt[k] if k < len(nxt) else k)
                                            for k, t in enumerate(inf["tys"])]
                ctx.ops.append(cf.ConditionalBranchOp(cond.results[0], blk, again, inf["exit"], []))
                blk.add_ops(ctx.ops)
                xctx = _Ctx(_Scope(ctx.scope))
                self.root_ctx = xctx
                term(xctx, j, bs.get("term"))
                inf["exit"].add_ops(xctx.ops)
                allblocks += [blk, inf["exit"]]
            else:
                term(ctx, j, bs.get("term"))
                blk.add_ops(ctx.ops)
                allblocks.append(blk)
        self.sigs.append((atys, rtys))
        return func.FuncOp(f"f{i}", ([xtype(t) for t in atys], [xtype(t) for t in rtys]), Region(allblocks))

    # ---- bounded recursion -----------------------------------------------------------------
    _MIX_INT = ("addi", "subi", "muli", "xori", "andi", "ori")
    _MIX_FLOAT = ("addf", "subf", "mulf")

    def rec_func(self, i, fr):
        """func with "rec": f(n, xs...) = base(...) if n <= 0 else mix(f'(n - dec, ...), values defined BEFORE
        the call); f' is f itself or (mutual) another "rec" function with the same signature."""
        from xdsl.dialects import arith, cf, func, scf
        from xdsl.ir import Block, Region
        rec = fr["rec"]
        atys, rtys = _presig(fr)
        if not atys or not _is_int(atys[0]) or _width(atys[0], self.ib) < 8:
            raise RecipeError("recursive function needs an integer counter (>= 8 bits) as first argument")
        if not rtys:
            raise RecipeError("recursive function without results")
        rets = [(p[0], p[1]) for p in fr.get("ret") or [] if isinstance(p, (list, tuple)) and len(p) == 2]
        ct = atys[0]
        target = i
        if _g(rec, "mutual"):
            cands = [j for j, (sig, isrec) in enumerate(self.presigs) if isrec and j != i and sig == (atys, rtys)]
            if cands:
                target = cands[_int(rec.get("partner")) % len(cands)]
        entry = Block(arg_types=[xtype(t) for t in atys])
        root = _Scope()
        ectx = _Ctx(root)
        for a, t in zip(entry.args, atys):
            root.add(a, t)
        n = entry.args[0]
        self.stmts(ectx, rec.get("pre"), 0)
        zero = self.const(ectx, ct, 0, visible=False)
        cond = arith.CmpiOp(n, zero, "sle")
        ectx.ops.append(cond)

        def base_vals(ctx):
            self.stmts(ctx, rec.get("base"), 1)
            return [self.ref(ctx, t, r) for t, r in rets]

        def rec_vals(ctx):
            dec = self.const(ctx, ct, 1 + abs(_int(rec.get("dec"))) % 2, visible=False)
            n1 = arith.SubiOp(n, dec)
            ctx.ops.append(n1)
            self.stmts(ctx, rec.get("mid"), 1)
            cargs = list(rec.get("cargs") or [])
            args = [n1.results[0]] + [self.ref(ctx, t, cargs[k] if k < len(cargs) else k)
                                      for k, t in enumerate(atys[1:])]
            # operands of the mixes are chosen (and, if need be, materialised) BEFORE the call
            uses = list(rec.get("use") or [])
            pre = [self.ref(ctx, t, uses[k] if k < len(uses) else 0) for k, t in enumerate(rtys)]
            call = func.CallOp(f"f{target}", args, [xtype(t) for t in rtys])
            self.emit(ctx, call, rtys)
            self.stmts(ctx, rec.get("post"), 1)
            mixes = list(rec.get("mix") or [])
            out = []
            for k, t in enumerate(rtys):
                name = mixes[k] if k < len(mixes) else None
                cur = self.ref(ctx, t, 0)
                if t.startswith("memref<"):
                    out.append(cur)
                    continue
                allowed = self._MIX_FLOAT if _is_float(t) else self._MIX_INT
                if name not in allowed:
                    name = allowed[0]
                o = _arith_cls(name)(cur, pre[k])
                self.emit(ctx, o, [t])
                out.append(o.results[0])
            return out

        name = f"f{i}"
        ftype = ([xtype(t) for t in atys], [xtype(t) for t in rtys])
        if rec.get("form") == "scf":
            def fin(make):
                def f(c2, blk):
                    c2.ops.append(scf.YieldOp(*make(c2)))
                return f
            tb = self.block([], root, [], 1, fin(base_vals))
            eb = self.block([], root, [], 1, fin(rec_vals))
            ifop = scf.IfOp(cond.results[0], [xtype(t) for t in rtys], Region(tb), Region(eb))
            ectx.ops.append(ifop)
            ectx.ops.append(func.ReturnOp(*ifop.results))
            entry.add_ops(ectx.ops)
            self.sigs.append((atys, rtys))
            return func.FuncOp(name, ftype, Region([entry]))
        bb, rb = Block(), Block()
        ectx.ops.append(cf.ConditionalBranchOp(cond.results[0], bb, [], rb, []))
        entry.add_ops(ectx.ops)
        for blk, make in ((bb, base_vals), (rb, rec_vals)):
            ctx = _Ctx(_Scope(root))
            vals = make(ctx)
            ctx.ops.append(func.ReturnOp(*vals))
            blk.add_ops(ctx.ops)
        self.sigs.append((atys, rtys))
        return func.FuncOp(name, ftype, Region([entry, bb, rb]))

    def module(self):
        from xdsl.dialects import builtin as b, func
        funcs = []
        frs = [f for f in (self.recipe.get("funcs") or []) if isinstance(f, dict)]
        if not frs:
            raise RecipeError("recipe without functions")
        self.presigs = [(_presig(f), isinstance(f.get("rec"), dict)) for f in frs]
        for i, fr in enumerate(frs):
            funcs.append(self.func(i, fr))
        decls = [func.FuncOp.external(n, [xtype(t) for t in a], [xtype(t) for t in r])
                 for n, (a, r) in sorted(self.externs.items())]
        return b.ModuleOp(decls + funcs)


_ARITH_CLS = {
    "addi": "AddiOp", "subi": "SubiOp", "muli": "MuliOp", "andi": "AndIOp", "ori": "OrIOp", "xori": "XOrIOp",
    "minsi": "MinSIOp", "maxsi": "MaxSIOp", "minui": "MinUIOp", "maxui": "MaxUIOp", "divsi": "DivSIOp",
    "divui": "DivUIOp", "remsi": "RemSIOp", "remui": "RemUIOp", "floordivsi": "FloorDivSIOp",
    "ceildivsi": "CeilDivSIOp", "ceildivui": "CeilDivUIOp", "shli": "ShLIOp", "shrsi": "ShRSIOp",
    "shrui": "ShRUIOp", "addui_extended": "AddUIExtendedOp", "mulsi_extended": "MulSIExtendedOp",
    "mului_extended": "MulUIExtendedOp", "addf": "AddfOp", "subf": "SubfOp", "mulf": "MulfOp",
    "divf": "DivfOp", "minimumf": "MinimumfOp", "maximumf": "MaximumfOp", "minnumf": "MinnumfOp",
    "maxnumf": "MaxnumfOp", "extsi": "ExtSIOp", "extui": "ExtUIOp", "trunci": "TruncIOp",
    "index_cast": "IndexCastOp", "sitofp": "SIToFPOp", "uitofp": "UIToFPOp", "fptosi": "FPToSIOp",
    "fptoui": "FPToUIOp", "extf": "ExtFOp", "truncf": "TruncFOp", "bitcast": "BitcastOp",
}


def _arith_cls(name):
    from xdsl.dialects import arith
    return getattr(arith, _ARITH_CLS[name])


def build(recipe, verify: bool = True):
    """Deterministically build the module of a recipe.  A verification failure is a generator bug."""
    if not isinstance(recipe, dict):
        raise RecipeError("recipe must be a dict")
    m = _Builder(recipe).module()
    if verify:
        m.verify()
    return m


def entry(recipe):
    frs = [f for f in (recipe.get("funcs") or []) if isinstance(f, dict)]
    if not frs:
        raise RecipeError("recipe without functions")
    return f"f{len(frs) - 1}", frs[-1]


def signature(func_recipe):
    return ([t for t in func_recipe.get("args") or []],
            [p[0] for p in func_recipe.get("ret") or [] if isinstance(p, (list, tuple)) and len(p) == 2])


def op_counts(module) -> dict:
    out: dict = {}
    for op in module.walk():
        n = op.name
        if n == "builtin.unregistered":
            n = op.attributes["op_name__"].data
        out[n] = out.get(n, 0) + 1
    return out


def render(module) -> str:
    import io
    from xdsl.printer import Printer
    s = io.StringIO()
    Printer(stream=s).print_op(module)
    return s.getvalue()


# ---------------------------------------------------------------------------------------------
# inputs
# ---------------------------------------------------------------------------------------------

_GOLD = 0x9E3779B97F4A7C15


def _value_for(t: str, k: int, index_bits: int):
    k = _int(k) & ((1 << 64) - 1)
    sel, rest = k % 4, k // 4
    x = (rest * _GOLD + 0x1234567) & ((1 << 64) - 1)
    if _is_int(t):
        w = _width(t, index_bits)
        if sel < 2:
            bs = boundary_ints(t, index_bits)
            return bs[rest % len(bs)] & ((1 << w) - 1)
        if sel == 2:
            return ((rest % 33) - 16) & ((1 << w) - 1)
        return (x >> (64 - w)) if w <= 64 else x
    if _is_float(t):
        if sel < 2:
            bs = boundary_float_bits(t)
            return _ffrom(bs[rest % len(bs)], t)
        if sel == 2:
            return ((rest % 4001) - 2000) / 16.0
        return _ffrom(x >> (64 - _width(t)), t)
    if t.startswith("memref<"):
        shape, elem = _memref_parts(t)
        n = 1
        for s in shape:
            n *= s
        return [_value_for(elem, k + 4 * j + (j % 2) * 2, index_bits) for j in range(n)]
    raise RecipeError(f"bad type {t!r}")


def input_vectors(func_recipe, n: int, ints, index_bits: int = 64) -> list:
    """n argument tuples for a function recipe, derived from `ints` (recipe data; no RNG): a mix of boundary
    values, small values and spread bit patterns.  Values are in refsem form (unsigned bit patterns, Python
    floats, plain lists for memrefs)."""
    atys = list(func_recipe.get("args") or [])
    ints = [i for i in (ints or []) if isinstance(i, int) and not isinstance(i, bool)]
    out = []
    for j in range(n):
        vec = []
        for i, t in enumerate(atys):
            pos = j * max(len(atys), 1) + i
            k = ints[pos % len(ints)] + (pos // len(ints)) * 4 if ints else pos * 4 + (pos % 3)
            vec.append(_value_for(t, k, index_bits))
        out.append(tuple(vec))
    return out


# ---------------------------------------------------------------------------------------------
# strategies
# ---------------------------------------------------------------------------------------------

def _allowed(F, cls, names):
    if cls is not None and cls not in F["ops"]:
        return []
    wl = F["op_names"]
    return [n for n in names if wl is None or n in wl]


def _ctl_allowed(F, flag, names):
    if flag not in F["control"]:
        return False
    wl = F["op_names"]
    return wl is None or all(n in wl for n in names)


def _int_value(t, ib):
    w = _width(t, ib)
    return st.one_of(st.sampled_from(boundary_ints(t, ib)), st.integers(-8, 8),
                     st.integers(-(1 << (w - 1)), (1 << (w - 1)) - 1))


def _float_bits(t):
    w = _width(t)
    return st.one_of(st.sampled_from(boundary_float_bits(t)),
                     st.integers(-64, 64).map(lambda n: _fbits(n / 4.0, t)),
                     st.integers(0, (1 << w) - 1))


_REF = st.one_of(st.integers(0, 3), st.integers(0, 11))      # biased to recent values


def _bound(sym: bool):
    c = st.builds(lambda v: {"c": v}, st.integers(-8, 14))
    if not sym:
        return c
    return st.one_of(c, st.builds(lambda r, m, o: {"r": r, "m": m, "o": o}, _REF, st.sampled_from([1, 3, 7, 15]),
                                  st.integers(0, 12)))


def _simple_stmts(F):
    """List of (weight, strategy) for region-free statements under feature set F."""
    ib = F["index_bits"]
    its = [t for t in F["int_types"]]
    fts = [t for t in F["float_types"]]
    wl = F["op_names"]
    out = []

    def add(w, strat):
        out.append((w, strat))
    consts = []
    for t in its:
        consts.append(st.builds(lambda v, t=t: {"op": "const", "t": t, "v": v}, _int_value(t, ib)))
    for t in fts:
        consts.append(st.builds(lambda v, t=t: {"op": "const", "t": t, "v": v}, _float_bits(t)))
    if consts and (wl is None or "constant" in wl):
        add(3, st.one_of(consts))
    binops = []
    for cls, names in INT_BIN.items():
        binops += _allowed(F, cls, names)
    if binops and its:
        def mk(op, t, a, b, safe, fl):
            if op == "addui_extended" and t == "index":
                op = "mului_extended"
            s = {"op": op, "t": t, "a": a, "b": b}
            if op in _DIVS or op in _SHIFTS:
                s["safe"] = safe
            if fl and op in ("addi", "subi", "muli", "shli"):
                s["flags"] = fl
            return s
        flags = st.sampled_from([[], [], [], ["nsw"], ["nuw"], ["nsw", "nuw"]]) if F["overflow_flags"] \
            else st.just([])
        bin_types = [t for t in its]
        add(8, st.builds(mk, st.sampled_from(binops), st.sampled_from(bin_types), _REF, _REF,
                             st.sampled_from([1, 1, 1, 0]), flags))
    if its and _allowed(F, "cmp", ["cmpi"]):
        add(3, st.builds(lambda t, p, a, b: {"op": "cmpi", "t": t, "p": p, "a": a, "b": b},
                             st.sampled_from(its), st.integers(0, 9), _REF, _REF))
    if _allowed(F, "select", ["select"]) and (its or fts):
        add(2, st.builds(lambda t, c, a, b: {"op": "select", "t": t, "c": c, "a": a, "b": b},
                             st.sampled_from(its + fts), _REF, _REF, _REF))
    casts = []
    plain = [t for t in its if t != "index"]
    for op in _allowed(F, "casts", INT_CASTS):
        pairs = []
        if op in ("extsi", "extui"):
            pairs = [(a, b) for a in plain for b in plain if _width(a) < _width(b)]
        elif op == "trunci":
            pairs = [(a, b) for a in plain for b in plain if _width(a) > _width(b)]
        elif op == "index_cast" and "index" in its:
            pairs = [(a, "index") for a in plain] + [("index", a) for a in plain]
        if pairs:
            casts.append(st.builds(lambda p, a, op=op: {"op": op, "from": p[0], "to": p[1], "a": a},
                                   st.sampled_from(pairs), _REF))
    for op in _allowed(F, "float_casts", FLOAT_CASTS):
        pairs = []
        if op in ("sitofp", "uitofp"):
            pairs = [(a, b) for a in plain for b in fts]
        elif op in ("fptosi", "fptoui"):
            pairs = [(a, b) for a in fts for b in plain]
        elif op == "extf":
            pairs = [(a, b) for a in fts for b in fts if _width(a) < _width(b)]
        elif op == "truncf":
            pairs = [(a, b) for a in fts for b in fts if _width(a) > _width(b)]
        elif op == "bitcast":
            pairs = [(a, b) for a in fts for b in plain if _width(a) == _width(b)]
            pairs += [(b, a) for a, b in pairs]
        if pairs:
            casts.append(st.builds(lambda p, a, op=op: {"op": op, "from": p[0], "to": p[1], "a": a},
                                   st.sampled_from(pairs), _REF))
    if casts:
        add(3, st.one_of(casts))
    fb = _allowed(F, "float_arith", FLOAT_BIN)
    if fb and fts:
        add(4, st.builds(lambda op, t, a, b: {"op": op, "t": t, "a": a, "b": b},
                             st.sampled_from(fb), st.sampled_from(fts), _REF, _REF))
    if fts and _allowed(F, "float_arith", ["negf"]):
        add(1, st.builds(lambda t, a: {"op": "negf", "t": t, "a": a}, st.sampled_from(fts), _REF))
    if fts and _allowed(F, "float_cmp", ["cmpf"]):
        add(2, st.builds(lambda t, p, a, b: {"op": "cmpf", "t": t, "p": p, "a": a, "b": b},
                             st.sampled_from(fts), st.integers(0, 15), _REF, _REF))
    if F["dup"]:
        add(1, st.builds(lambda k: {"op": "dup", "k": k}, st.integers(0, 7)))
    vt = its + fts
    targs = st.lists(st.tuples(st.sampled_from(vt), _REF).map(list), max_size=3) if vt else None
    if vt and "call" in F["effects"] and (wl is None or "func.call" in wl):
        add(1, st.builds(lambda k, a, r: {"op": "call", "k": k, "args": a, "res": r}, st.integers(0, 2),
                             targs, st.lists(st.sampled_from(vt), max_size=2)))
    if vt and "print" in F["effects"] and (wl is None or "printf.print_format" in wl):
        add(1, st.builds(lambda k, a: {"op": "print", "k": k, "args": a}, st.integers(0, 3), targs))
    if vt and F["unknown_ops"]:
        add(1, st.builds(lambda k, a: {"op": "unk", "k": k, "args": a}, st.integers(0, 2), targs))
    if vt and "memref" in F["effects"] and (wl is None or {"memref.load", "memref.store", "memref.alloc"} <= set(wl)):
        el = st.sampled_from(vt)
        n = st.sampled_from([1, 2, 4])
        sym = "index" in its
        ld = st.builds(lambda t, n, m, i: {"op": "load", "t": t, "n": n, "m": m, "i": i}, el, n, _REF, _bound(sym))
        add(2, st.one_of(
            ld,
            st.builds(lambda t, n, v: {"op": "alloc", "t": t, "n": n, "v": v}, el, n, st.integers(0, 20)),
            ld,
            st.builds(lambda t, n, m, i, v: {"op": "store", "t": t, "n": n, "m": m, "i": i, "v": v},
                      el, n, _REF, _bound(sym), _REF)))
    if F["symref"] and vt:
        add(3, st.one_of(
            st.builds(lambda t, v: {"op": "sym_decl", "t": t, "v": v}, st.sampled_from(vt), _REF),
            st.builds(lambda k: {"op": "sym_fetch", "k": k}, st.integers(0, 3)),
            st.builds(lambda k: {"op": "sym_fetch", "k": k}, st.integers(0, 3)),
            st.builds(lambda k, v: {"op": "sym_update", "k": k, "v": v}, st.integers(0, 3), _REF)))
    if F["affine"] and "index" in its:
        leaf = st.one_of(st.builds(lambda i: ["d", i], st.integers(0, 1)),
                         st.builds(lambda i: ["s", i], st.integers(0, 1)),
                         st.builds(lambda c: ["c", c], st.integers(-9, 9)))
        expr = st.recursive(leaf, lambda ch: st.one_of(
            st.builds(lambda a, b: ["+", a, b], ch, ch),
            st.builds(lambda a, c: ["*", a, c], ch, st.integers(-4, 4)),
            st.builds(lambda k, a, c: [k, a, c], st.sampled_from(["mod", "floordiv", "ceildiv"]), ch,
                      st.integers(0, 7))), max_leaves=5)
        add(2, st.builds(lambda e, a: {"op": "affine_apply", "e": e, "args": a}, expr,
                             st.lists(_REF, max_size=4)))
        if vt and "memref" in F["effects"]:
            el = st.sampled_from(vt)
            n = st.sampled_from([1, 2, 4])
            add(1, st.one_of(
                st.builds(lambda t, n, m, i, k, c: {"op": "affine_load", "t": t, "n": n, "m": m, "i": i, "k": k,
                                                    "c": c}, el, n, _REF, _REF, st.integers(-3, 3),
                          st.integers(-5, 5)),
                st.builds(lambda t, n, m, i, k, c, v: {"op": "affine_store", "t": t, "n": n, "m": m, "i": i,
                                                       "k": k, "c": c, "v": v}, el, n, _REF, _REF,
                          st.integers(-3, 3), st.integers(-5, 5), _REF)))
    return out


def _ident(x):
    return x


def _stmt_levels(F):
    """Statement strategies by remaining nesting depth: levels[0] has no regions."""
    simple = _simple_stmts(F)
    if not simple:
        raise ValueError("progen: the feature set allows no statements")
    vt = F["int_types"] + F["float_types"]
    # .map() wrappers keep one_of from flattening nested alternatives, so the weights are real
    levels = [st.one_of([s.map(_ident) for w, s in simple for _ in range(w)])]
    loop_tys = [t for t in F["int_types"] if _width(t, F["index_bits"]) >= 8]
    sym = True
    for _ in range(F["max_depth"]):
        inner = st.lists(levels[-1], max_size=4)
        res = st.lists(st.sampled_from(vt), max_size=2)
        iters = st.lists(st.tuples(st.sampled_from(vt), _REF).map(list), max_size=2)
        refs = st.lists(_REF, max_size=2)
        ctl = []
        if _ctl_allowed(F, "scf_if", ["scf.if", "scf.yield"]):
            ctl.append(st.builds(lambda c, r, th, ty, el, ey: {"op": "if", "c": c, "res": r, "then": th, "ty": ty,
                                                                "else": el, "ey": ey},
                                 _REF, res, inner, refs, inner, refs))
        if loop_tys and _ctl_allowed(F, "scf_for", ["scf.for", "scf.yield"]):
            ctl.append(st.builds(lambda t, lb, ub, sp, it, bd, y: {"op": "for", "t": t, "lb": lb, "ub": ub,
                                                                   "step": sp, "iters": it, "body": bd, "y": y},
                                 st.sampled_from(loop_tys), _bound(sym), _bound(sym), _bound(sym), iters, inner,
                                 refs))
        if loop_tys and _ctl_allowed(F, "scf_while", ["scf.while", "scf.condition", "scf.yield"]):
            ctl.append(st.builds(lambda t, n, it, bd, y: {"op": "while", "t": t, "n": n, "iters": it, "body": bd,
                                                          "y": y},
                                 st.sampled_from(loop_tys), _bound(sym), iters, inner, refs))
        if "index" in F["int_types"] and _ctl_allowed(F, "index_switch", ["scf.index_switch", "scf.yield"]):
            case = st.tuples(st.integers(0, 7), inner, refs).map(list)
            ctl.append(st.builds(lambda v, r, cs, d: {"op": "iswitch", "v": v, "res": r, "cases": cs, "default": d},
                                 _bound(sym), res, st.lists(case, max_size=3), st.tuples(inner, refs).map(list)))
        if F["affine"] and "index" in F["int_types"]:
            ctl.append(st.builds(lambda lb, ub, sp, it, bd, y: {"op": "affine_for", "lb": lb, "ub": ub, "step": sp,
                                                                "iters": it, "body": bd, "y": y},
                                 _bound(sym), _bound(sym), st.integers(0, 3), iters, inner, refs))
            ctl.append(st.builds(lambda v, c, k, r, th, ty, el, ey: {"op": "affine_if", "v": v, "c": c, "kind": k,
                                                                      "res": r, "then": th, "ty": ty, "else": el,
                                                                      "ey": ey},
                                 _REF, st.integers(-4, 8), st.integers(0, 2), res, inner, refs, inner, refs))
        if ctl:
            levels.append(st.one_of(levels[0].map(_ident), levels[0].map(_ident), st.one_of(ctl).map(_ident)))
        else:
            levels.append(levels[0])
    return levels


def _terms(F, vt):
    refs = st.lists(_REF, max_size=3)
    wl = F["op_names"]
    opts = [st.just({"k": "ret"})]
    if wl is None or "cf.br" in wl:
        opts.append(st.builds(lambda to, a: {"k": "br", "to": to, "args": a}, st.integers(0, 3), refs))
    if wl is None or "cf.cond_br" in wl:
        c = st.builds(lambda c, to, a, fto, fa: {"k": "cond", "c": c, "to": to, "args": a, "fto": fto, "fargs": fa},
                      _REF, st.integers(0, 3), refs, st.integers(0, 3), refs)
        opts += [c, c]
    sw_t = [t for t in F["int_types"] if t != "index" and _width(t) >= 8]
    if sw_t and (wl is None or "cf.switch" in wl):
        case = st.tuples(st.integers(-3, 5), st.integers(0, 3), refs).map(list)
        opts.append(st.builds(lambda t, v, cs, to, a: {"k": "switch", "t": t, "v": v, "cases": cs, "to": to,
                                                       "args": a},
                              st.sampled_from(sw_t), _REF, st.lists(case, max_size=3), st.integers(0, 3), refs))
    return st.one_of(opts)


def program_recipes(features_=None, **overrides):
    """Strategy of program recipes for the sub-language selected by the feature dict / keyword overrides
    (see DEFAULT_FEATURES; e.g. program_recipes(int_types=["i32"], float_types=[], control=["scf_for"])).
    Each program concentrates on 1..3 of the selected value types so that values chain into data flow."""
    F = features(features_, **overrides)
    vt = F["int_types"] + F["float_types"]
    if not vt:
        raise ValueError("progen: no value types selected")
    if len(vt) <= 3:
        return _programs(F)
    cache: dict = {}

    def sub(tys):
        key = tuple(sorted(tys))
        if key not in cache:
            cache[key] = _programs(dict(F, int_types=[t for t in F["int_types"] if t in key],
                                        float_types=[t for t in F["float_types"] if t in key]))
        return cache[key]
    return st.lists(st.sampled_from(vt), min_size=1, max_size=3, unique=True).flatmap(sub)


def _programs(F):
    vt = F["int_types"] + F["float_types"]
    levels = _stmt_levels(F)
    top = levels[-1]
    wl = F["op_names"]
    arg_t = list(vt)
    if F["memref_args"] and "memref" in F["effects"]:
        arg_t += [f"memref<{n}x{t}>" for t in vt[:3] for n in (2, 4)]
    cf_on = "cf" in F["control"] and (wl is None or "cf.br" in wl or "cf.cond_br" in wl)
    wl_ok_loop = wl is None or {"subi", "cmpi", "cf.cond_br"} <= set(wl)

    def func(ix):
        body = st.lists(top, max_size=F["size"])
        if F["internal_calls"] and ix > 0 and (wl is None or "func.call" in wl):
            callf = st.builds(lambda f, a: {"op": "callf", "f": f, "args": a}, st.integers(0, 3),
                              st.lists(_REF, max_size=3))
            body = st.lists(st.one_of(top.map(_ident), top.map(_ident), top.map(_ident), callf), max_size=F["size"])
        base = {"args": st.lists(st.sampled_from(arg_t), min_size=1 if F["max_args"] else 0,
                                 max_size=F["max_args"]),
                "body": body,
                "ret": st.lists(st.tuples(st.sampled_from(vt), _REF).map(list), min_size=1,
                                max_size=max(1, F["max_rets"]))}
        plain = st.fixed_dictionaries(base)
        if not cf_on:
            return plain
        loop = st.one_of(st.none(), st.none(), st.builds(lambda n, nx: {"n": n, "next": nx}, _bound("index" in vt),
                                                          st.lists(_REF, max_size=2))) \
            if wl_ok_loop and "index" in F["int_types"] else st.none()
        blk = st.fixed_dictionaries({"args": st.lists(st.sampled_from(vt), max_size=2),
                                     "body": st.lists(levels[max(len(levels) - 2, 0)], max_size=4),
                                     "term": _terms(F, vt), "loop": loop})
        withcf = st.fixed_dictionaries(dict(base, term=_terms(F, vt),
                                            blocks=st.lists(blk, min_size=1, max_size=F["max_blocks"])))
        return st.one_of(plain, withcf)

    nf = st.integers(1, max(1, F["max_funcs"]))
    funcs = nf.flatmap(lambda n: st.tuples(*[func(i) for i in range(n)]).map(list))
    inputs = st.lists(st.integers(0, (1 << 64) - 1), min_size=1,
                      max_size=max(1, F["n_inputs"] * max(1, F["max_args"])))
    return st.fixed_dictionaries({"funcs": funcs, "inputs": inputs, "ib": st.just(32 if F["index_bits"] == 32 else 64)})


def recursive_recipes(features_=None, **overrides):
    """Strategy of programs with BOUNDED RECURSION (additive family; same recipe grammar plus the "rec" key):
    one recursive function f0 (or two mutually recursive ones f0/f1) followed by a driver that clamps its first
    argument to 0..7 and calls f0.  A recursive function is
        {"args": [counter int type, T...], "ret": [[T, ref]...],        ret refs: the base-case results
         "rec": {"form": "cf"|"scf", "pre": [stmt...], "base": [stmt...], "mid": [stmt...], "post": [stmt...],
                 "dec": int, "cargs": [ref...], "use": [ref...], "mix": [op name...], "mutual": 0|1, "partner": int}}
    f(n, xs) = base results if n <= 0, else mix_k(result_k of f'(n - 1|2, cargs), value chosen by use_k BEFORE the
    call) -- so every activation reads its own earlier values after the recursive call returns.  "cf" builds a
    three-block CFG (entry / base / rec), "scf" an scf.if.  Only region-free statements are used in the bodies."""
    F = features(features_, **overrides)
    wl = F["op_names"]
    ib = F["index_bits"]
    ctys = [t for t in F["int_types"] if _width(t, ib) >= 8]
    if not ctys:
        raise ValueError("progen.recursive_recipes: needs an integer type of at least 8 bits")
    forms = [f for f, need in (("cf", "cf.cond_br"), ("scf", "scf.if")) if wl is None or need in wl]
    if not forms:
        raise ValueError("progen.recursive_recipes: neither cf.cond_br nor scf.if is allowed")
    mix_i = [m for m in _Builder._MIX_INT if wl is None or m in wl]
    mix_f = [m for m in _Builder._MIX_FLOAT if wl is None or m in wl]

    def for_types(tys):
        ct = tys[0]
        vt = [t for t in dict.fromkeys(tys) if (_is_int(t) and mix_i) or (_is_float(t) and mix_f)]
        if not vt:
            raise ValueError("progen.recursive_recipes: no mixing op allowed for the selected types")
        Fs = dict(F, int_types=[t for t in dict.fromkeys([ct] + list(tys)) if _is_int(t)],
                  float_types=[t for t in dict.fromkeys(tys) if _is_float(t)])
        simple = st.one_of([s_.map(_ident) for w, s_ in _simple_stmts(Fs) for _ in range(w)])
        body = st.lists(simple, max_size=3)
        extra = st.lists(st.sampled_from(vt), max_size=2)
        rt = st.lists(st.sampled_from(vt), min_size=1, max_size=2)
        allmix = st.sampled_from(mix_i + mix_f)

        def mk(extra_, rt_, form, pre, base, mid, post, dec, cargs, use, mix, mutual, retrefs, drv_body, drv_refs,
               second):
            sig_args = [ct] + extra_
            ret = [[t, retrefs[k % len(retrefs)]] for k, t in enumerate(rt_)]

            def recf(spec, partner):
                return {"args": sig_args, "ret": ret,
                        "rec": dict(spec, dec=dec, cargs=cargs, use=use,
                                    mix=[m if (m in mix_f) == _is_float(t) else (mix_f if _is_float(t) else mix_i)[0]
                                         for m, t in zip(mix, rt_)], mutual=mutual, partner=partner)}
            funcs = [recf({"form": form, "pre": pre, "base": base, "mid": mid, "post": post}, 0)]
            if mutual:
                funcs.append(recf(second, 0))
            driver = {"args": sig_args,
                      # ref -1 = the OLDEST visible value of the type = the driver's own counter argument
                      "body": drv_body + [{"op": "const", "t": ct, "v": 7},
                                          {"op": "andi", "t": ct, "a": 0, "b": -1},
                                          {"op": "callf", "f": 0, "args": [0] + drv_refs}],
                      # result k of the call = the (number of later results of that type)-th most recent value
                      "ret": [[t, sum(1 for u in rt_[k + 1:] if u == t)] for k, t in enumerate(rt_)]}
            return {"funcs": funcs + [driver]}
        spec2 = st.fixed_dictionaries({"form": st.sampled_from(forms), "pre": body, "base": body, "mid": body,
                                       "post": body})
        return st.builds(mk, extra, rt, st.sampled_from(forms), body, body, body, body, st.integers(0, 1),
                         st.lists(_REF, max_size=2), st.lists(_REF, min_size=2, max_size=2),
                         st.lists(allmix, min_size=2, max_size=2), st.sampled_from([0, 0, 1]),
                         st.lists(_REF, min_size=1, max_size=2), st.lists(simple, max_size=2),
                         st.lists(_REF, max_size=2), spec2)

    vt_all = F["int_types"] + F["float_types"]
    tys = st.tuples(st.sampled_from(ctys), st.lists(st.sampled_from(vt_all), max_size=2, unique=True)).map(
        lambda p: [p[0]] + [t for t in p[1] if t != p[0]])
    inputs = st.lists(st.integers(0, (1 << 64) - 1), min_size=1, max_size=max(1, F["n_inputs"] * 3))
    progs = tys.flatmap(for_types)
    return st.tuples(progs, inputs).map(lambda pi: dict(pi[0], inputs=pi[1], ib=32 if ib == 32 else 64))
