"""Shared generator / independent structural key for builtin attributes and types (C06, C08).

Recipes are plain JSON lists ``[tag, args...]``; ``build(recipe)`` turns one into an xDSL
attribute through the PUBLIC constructors only.  ``attr_key(attr)`` is an independent structural
identity (never ``__eq__``, never the printer): class qualname + recursive payload, floats as IEEE
bit patterns of their declared width, bytes verbatim, dictionaries sorted by key.

Type recipes
    ["i", width, sgn]            sgn 0 signless / 1 signed / 2 unsigned
    ["index"]  ["f", name]  ["nonetype"]  ["complex", T]
    ["vector", T, [dims], [scalable 0/1 ...]]
    ["tensor", T, [dims], enc|None]          dim -1 = dynamic
    ["utensor", T]
    ["memref", T, [dims], layout|None, space|None]     ["umemref", T, space|None]
    ["func", [T...], [T...]]     ["tuple", [T...]]
Attribute recipes
    ["int", v, T]  ["float", fspec, fname]  ["str", s]  ["bytes", hex]  ["unit"]  ["none"]
    ["array", [A...]]  ["dict", [[key, A]...]]  ["symref", root, [nested...]]
    ["loc_unknown"] ["loc_file", name, line, col] ["loc_callsite", L, L] ["loc_name", name, L|None]
    ["loc_fused", [L...], meta|None]
    ["amap", nd, ns, [E...]]  ["aset", nd, ns, [[kind, E, E]...]]  ["strided", [int|None...], int|None]
    ["opaque", ident, value, T|None]
    ["dense", shapedT, [elem...], "splat"|"cycle"]   elem: int | fspec | [elem, elem] (complex)
    ["densearr", T, [elem...]]
    ["dres", handle, shapedT]
fspec  ["d", bits64]  a Python float given by its binary64 bit pattern (rounded by the constructor)
       ["w", bits]    a bit pattern in the declared width of the float type (decoded exactly)
affine expression E  ["d", i] ["s", i] ["c", v] ["+", E, E] ["*", E, c] ["mod"|"fdiv"|"cdiv", E, c>0]
"""
from __future__ import annotations

import functools
import struct
from enum import Enum
from typing import Any

from hypothesis import strategies as st

from xdsl.dialects import builtin as B
from xdsl.ir import Attribute, Data, ParametrizedAttribute, TypeAttribute
from xdsl.ir.affine import (AffineBinaryOpExpr, AffineConstantExpr, AffineConstraintExpr,
                            AffineConstraintKind, AffineDimExpr, AffineExpr, AffineMap, AffineSet,
                            AffineSymExpr)
from xdsl.utils.exceptions import VerifyException

# ------------------------------------------------------------------------------------------------
# float types: name -> (xdsl type, layout) ; layout = (exp bits, mantissa bits, bias, has_sign)
FLOAT_LAYOUT = {
    "f16": (5, 10, 15, True), "bf16": (8, 7, 127, True), "f32": (8, 23, 127, True),
    "f64": (11, 52, 1023, True), "f80": (15, 64, 16383, True), "f128": (15, 112, 16383, True),
    "tf32": (8, 10, 127, True),
    "f8E5M2": (5, 2, 15, True), "f8E4M3": (4, 3, 7, True), "f8E4M3FN": (4, 3, 7, True),
    "f8E5M2FNUZ": (5, 2, 16, True), "f8E4M3FNUZ": (4, 3, 8, True),
    "f8E4M3B11FNUZ": (4, 3, 11, True), "f8E3M4": (3, 4, 3, True),
    "f8E8M0FNU": (8, 0, 127, False), "f6E2M3FN": (2, 3, 1, True), "f6E3M2FN": (3, 2, 3, True),
    "f4E2M1FN": (2, 1, 1, True),
}
FLOAT_NAMES = [n for n in FLOAT_LAYOUT if hasattr(B, n)]
MAIN_FLOATS = ["f16", "bf16", "f32", "f64"]


def float_type(name: str):
    return getattr(B, name)


def float_width(name: str) -> int:
    e, m, _, s = FLOAT_LAYOUT[name]
    return e + m + int(s)


def d2bits(x: float) -> int:
    return struct.unpack("<Q", struct.pack("<d", x))[0]


def bits2d(b: int) -> float:
    return struct.unpack("<d", struct.pack("<Q", b & (2 ** 64 - 1)))[0]


def _f32bits_to_float(b: int) -> float:
    return struct.unpack("<f", struct.pack("<I", b & 0xFFFFFFFF))[0]


def decode_width_bits(name: str, bits: int) -> float:
    """Exact value of a declared-width bit pattern (plain IEEE-like reading of the layout; the
    constructor under test maps it to the nearest representable value of exotic formats)."""
    bits &= (1 << float_width(name)) - 1
    if name == "f64":
        return bits2d(bits)
    if name == "f32":
        return _f32bits_to_float(bits)
    if name == "f16":
        return struct.unpack("<e", struct.pack("<H", bits))[0]
    if name == "bf16":
        return _f32bits_to_float(bits << 16)
    if name == "tf32":
        return _f32bits_to_float(bits << 13)
    e, m, bias, has_sign = FLOAT_LAYOUT[name]
    if name in ("f80", "f128"):  # only a binary64 payload can be stored: read the top 64 bits
        return bits2d(bits >> (float_width(name) - 64))
    sign = -1.0 if has_sign and (bits >> (e + m)) & 1 else 1.0
    be = (bits >> m) & ((1 << e) - 1)
    mant = bits & ((1 << m) - 1)
    if be == 0 and name != "f8E8M0FNU":
        return sign * mant * 2.0 ** (1 - bias - m)
    return sign * (1 + mant / 2.0 ** m) * 2.0 ** (be - bias)


def fspec_value(fspec, name: str) -> float:
    kind, bits = fspec
    if kind == "d":
        return bits2d(bits)
    if kind == "w":
        return decode_width_bits(name, bits)
    raise AssertionError(fspec)


def float_bits_key(value: float, name: str):
    """IEEE bit pattern of `value` in the declared width when it is exactly representable there
    (f16/bf16/f32/tf32/f64), otherwise its binary64 pattern (the only payload xDSL stores)."""
    b64 = d2bits(value)
    try:
        if name == "f32":
            p = struct.pack("<f", value)
            if d2bits(struct.unpack("<f", p)[0]) == b64:
                return ("b32", struct.unpack("<I", p)[0])
        elif name == "f16":
            p = struct.pack("<e", value)
            if d2bits(struct.unpack("<e", p)[0]) == b64:
                return ("b16", struct.unpack("<H", p)[0])
        elif name in ("bf16", "tf32"):
            p = struct.pack("<f", value)
            drop = 16 if name == "bf16" else 13
            w = struct.unpack("<I", p)[0]
            if d2bits(struct.unpack("<f", p)[0]) == b64 and w & ((1 << drop) - 1) == 0:
                return ("b%d" % (32 - drop), w >> drop)
    except OverflowError:
        pass
    return ("b64", b64)


def float_class(value: float, name: str | None = None) -> str:
    b = d2bits(value)
    expo = (b >> 52) & 0x7FF
    frac = b & ((1 << 52) - 1)
    if expo == 0x7FF:
        return "inf" if frac == 0 else "nan"
    if expo == 0 and frac == 0:
        return "neg_zero" if b >> 63 else "zero"
    if name is not None and name in FLOAT_LAYOUT:
        e, m, bias, _ = FLOAT_LAYOUT[name]
        if abs(value) < 2.0 ** (1 - bias):
            return "subnormal"
    elif expo == 0:
        return "subnormal"
    return "finite"


# ------------------------------------------------------------------------------------------------
class ParseTimeout(Exception):
    """The code under test did not return within the (generous) per-call budget."""


class time_limit:
    """Context manager: raise ParseTimeout if the body burns more than `seconds` of CPU time of
    this process (ITIMER_PROF, so that a heavily loaded machine cannot trip it). A budget hit is
    reported as inconclusive by the callers, never as a violation."""

    def __init__(self, seconds: float = 10.0):
        self.seconds = seconds

    def _fire(self, *_):
        raise ParseTimeout()

    def __enter__(self):
        import signal
        self._old = signal.signal(signal.SIGPROF, self._fire)
        signal.setitimer(signal.ITIMER_PROF, self.seconds)
        return self

    def __exit__(self, *exc):
        import signal
        signal.setitimer(signal.ITIMER_PROF, 0)
        signal.signal(signal.SIGPROF, self._old)
        return False


class Rejected(Exception):
    """The constructors / verifier under test reject the value (documented error)."""

    def __init__(self, label: str):
        super().__init__(label)
        self.label = label


SIGN = [B.Signedness.SIGNLESS, B.Signedness.SIGNED, B.Signedness.UNSIGNED]


def _dims(dims):
    return [B.DYNAMIC_INDEX if d < 0 else d for d in dims]


def _opt(r):
    return B.NoneAttr() if r is None else _build(r)


def _affine(e, nd, ns) -> AffineExpr:
    tag = e[0]
    if tag == "d":
        return AffineExpr.dimension(e[1] % nd) if nd else AffineExpr.constant(e[1])
    if tag == "s":
        return AffineExpr.symbol(e[1] % ns) if ns else AffineExpr.constant(-e[1])
    if tag == "c":
        return AffineExpr.constant(e[1])
    lhs = _affine(e[1], nd, ns)
    if tag == "+":
        return lhs + _affine(e[2], nd, ns)
    if tag == "*":
        return lhs * e[2]
    if tag == "mod":
        return lhs % e[2]
    if tag == "fdiv":
        return lhs // e[2]
    if tag == "cdiv":
        return lhs.ceil_div(e[2])
    raise AssertionError(e)


def _elem(v, eltr):
    """dense element recipe -> python value for from_list"""
    if eltr[0] == "complex":
        return (_elem(v[0], eltr[1]), _elem(v[1], eltr[1]))
    if eltr[0] == "f":
        return fspec_value(v, eltr[1])
    return v


def elem_type_recipe(shaped):
    return shaped[1]


def dense_values(r):
    """The element recipes actually handed to from_list (splat: one; cycle: prod(shape))."""
    shaped, vals, mode = r[1], r[2], r[3]
    n = 1
    for d in shaped[2]:
        n *= d
    if mode == "splat":
        return [vals[0]]
    if mode != "cycle":
        raise AssertionError(f"bad dense mode {mode!r}")
    return [vals[i % len(vals)] for i in range(n)]


def _build(r) -> Attribute:
    try:
        return _build_inner(r)
    except VerifyException as e:
        raise Rejected("verify:" + str(r[0])) from e
    except NotImplementedError as e:
        raise Rejected("not_implemented:" + str(r[0])) from e


def _build_inner(r) -> Attribute:
    tag = r[0]
    # ---- types
    if tag == "i":
        return B.IntegerType(r[1], SIGN[r[2]])
    if tag == "index":
        return B.IndexType()
    if tag == "f":
        return float_type(r[1])
    if tag == "nonetype":
        return B.NoneType()
    if tag == "complex":
        return B.ComplexType(_build(r[1]))
    if tag == "vector":
        scal = B.ArrayAttr([B.IntegerAttr(int(bool(s)), 1) for s in r[3]])
        return B.VectorType(_build(r[1]), list(r[2]), scal)
    if tag == "tensor":
        return B.TensorType(_build(r[1]), _dims(r[2]), _opt(r[3]))
    if tag == "utensor":
        return B.UnrankedTensorType(_build(r[1]))
    if tag == "memref":
        return B.MemRefType(_build(r[1]), _dims(r[2]), _opt(r[3]), _opt(r[4]))
    if tag == "umemref":
        return B.UnrankedMemRefType.from_type(_build(r[1]), _opt(r[2]))
    if tag == "func":
        return B.FunctionType.from_lists([_build(x) for x in r[1]], [_build(x) for x in r[2]])
    if tag == "tuple":
        return B.TupleType(B.ArrayAttr([_build(x) for x in r[1]]))
    # ---- attributes
    if tag == "int":
        return B.IntegerAttr(r[1], _build(r[2]))
    if tag == "float":
        try:
            return B.FloatAttr(fspec_value(r[1], r[2]), float_type(r[2]))
        except OverflowError:  # struct.pack of a finite value beyond the range of f16/f32
            raise Rejected("ctor_overflow:" + r[2])
        except ValueError as e:
            if "does not support signed values" in str(e):
                raise Rejected("ctor_rejects_sign:" + r[2])
            raise
    if tag == "str":
        return B.StringAttr(r[1])
    if tag == "bytes":
        return B.BytesAttr(bytes.fromhex(r[1]))
    if tag == "unit":
        return B.UnitAttr()
    if tag == "none":
        return B.NoneAttr()
    if tag == "array":
        return B.ArrayAttr([_build(x) for x in r[1]])
    if tag == "dict":
        return B.DictionaryAttr({k: _build(v) for k, v in r[1]})
    if tag == "symref":
        return B.SymbolRefAttr(r[1], list(r[2]))
    if tag == "loc_unknown":
        return B.UnknownLoc()
    if tag == "loc_file":
        return B.FileLineColLoc(B.StringAttr(r[1]), B.IntAttr(r[2]), B.IntAttr(r[3]))
    if tag == "loc_callsite":
        return B.CallSiteLoc(_build(r[1]), _build(r[2]))
    if tag == "loc_name":
        return B.NameLoc(B.StringAttr(r[1]), _opt(r[2]))
    if tag == "loc_fused":
        return B.FusedLoc(B.ArrayAttr([_build(x) for x in r[1]]), _opt(r[2]))
    if tag == "amap":
        nd, ns = r[1], r[2]
        return B.AffineMapAttr(AffineMap(nd, ns, tuple(_affine(e, nd, ns) for e in r[3])))
    if tag == "aset":
        nd, ns = r[1], r[2]
        cs = tuple(AffineConstraintExpr(AffineConstraintKind[k], _affine(a, nd, ns),
                                        _affine(b, nd, ns)) for k, a, b in r[3])
        return B.AffineSetAttr(AffineSet(nd, ns, cs))
    if tag == "strided":
        return B.StridedLayoutAttr(list(r[1]), r[2])
    if tag == "opaque":
        return B.OpaqueAttr.from_strings(r[1], r[2], _opt(r[3]))
    if tag == "dense":
        ty = _build(r[1])
        eltr = r[1][1]
        vals = [_elem(v, eltr) for v in dense_values(r)]
        try:
            return B.DenseIntOrFPElementsAttr.from_list(ty, vals)
        except OverflowError:
            raise Rejected("ctor_overflow:dense")
        except ValueError as e:
            if "does not support signed values" in str(e) or "out of range" in str(e):
                raise Rejected("ctor_rejects_value:dense")
            raise
    if tag == "densearr":
        ty = _build(r[1])
        vals = [_elem(v, r[1]) for v in r[2]]
        try:
            return B.DenseArrayBase.from_list(ty, vals)
        except OverflowError:
            raise Rejected("ctor_overflow:densearr")
        except ValueError as e:
            if "does not support signed values" in str(e) or "out of range" in str(e):
                raise Rejected("ctor_rejects_value:densearr")
            raise
    if tag == "dres":
        return B.DenseResourceAttr.from_params(r[1], _build(r[2]))
    raise AssertionError(f"unknown recipe tag {tag!r}")


def build(r) -> Attribute:
    """Recipe -> attribute through the public constructors. Raises Rejected when xDSL's own
    verifier (run by every constructor) or a documented 'not supported' path refuses the value."""
    return _build(r)


def children(r) -> list:
    """Sub-recipes that are complete attributes/types printed through print_attribute."""
    tag = r[0]
    opt = lambda x: [x] if x is not None else []  # noqa: E731
    if tag in ("complex", "utensor"):
        return [r[1]]
    if tag == "vector":
        return [r[1]]
    if tag == "tensor":
        return [r[1]] + opt(r[3])
    if tag == "memref":
        return [r[1]] + opt(r[3]) + opt(r[4])
    if tag == "umemref":
        return [r[1]] + opt(r[2])
    if tag == "func":
        return list(r[1]) + list(r[2])
    if tag == "tuple":
        return list(r[1])
    if tag == "int":
        return [r[2]]
    if tag == "array":
        return list(r[1])
    if tag == "dict":
        return [v for _, v in r[1]]
    if tag == "loc_callsite":
        return [r[1], r[2]]
    if tag == "loc_name":
        return opt(r[2])
    if tag == "loc_fused":
        return list(r[1]) + opt(r[2])
    if tag == "opaque":
        return opt(r[3])
    if tag in ("dense", "densearr"):
        return [r[1]]
    if tag == "dres":
        return [r[2]]
    return []


def depth(r) -> int:
    cs = children(r)
    return 1 + (max(depth(c) for c in cs) if cs else 0)


# ------------------------------------------------------------------------------------------------
# independent structural key
def _qual(obj) -> str:
    t = type(obj)
    return t.__module__ + "." + t.__qualname__


def _affine_key(e):
    if isinstance(e, AffineBinaryOpExpr):
        return ("bin", e.kind.name, _affine_key(e.lhs), _affine_key(e.rhs))
    if isinstance(e, AffineDimExpr):
        return ("dim", int(e.position))
    if isinstance(e, AffineSymExpr):
        return ("sym", int(e.position))
    if isinstance(e, AffineConstantExpr):
        return ("const", int(e.value))
    raise TypeError(f"attr_key: unknown affine expression {type(e)}")


def _payload_key(p: Any):
    if isinstance(p, Attribute):
        return attr_key(p)
    if isinstance(p, bool) or isinstance(p, int):
        return ("int", int(p))
    if isinstance(p, float):
        return ("float", ("b64", d2bits(p)))
    if isinstance(p, str):
        return ("str", p)
    if isinstance(p, (bytes, bytearray)):
        return ("bytes", bytes(p).hex())
    if isinstance(p, Enum):
        return ("enum", type(p).__name__, p.name)
    if isinstance(p, (tuple, list)):
        return ("seq", tuple(_payload_key(x) for x in p))
    if isinstance(p, (set, frozenset)):
        return ("set", tuple(sorted((_payload_key(x) for x in p), key=repr)))
    if isinstance(p, AffineMap):
        return ("affine_map", p.num_dims, p.num_symbols, tuple(_affine_key(e) for e in p.results))
    if isinstance(p, AffineSet):
        return ("affine_set", p.num_dims, p.num_symbols,
                tuple((c.kind.name, _affine_key(c.lhs), _affine_key(c.rhs)) for c in p.constraints))
    if hasattr(p, "items"):  # immutabledict / mapping: unordered
        return ("map", tuple(sorted(((str(k), _payload_key(v)) for k, v in p.items()),
                                    key=lambda kv: kv[0])))
    if p is None:
        return ("none",)
    raise TypeError(f"attr_key: unsupported payload {type(p)}")


def attr_key(a: Attribute):
    """Independent structural identity of an attribute (see module docstring)."""
    if isinstance(a, B.FloatAttr):
        ty = a.type
        name = getattr(ty, "name", "?")
        return (_qual(a), ("float", float_bits_key(a.value.data, name)), attr_key(ty))
    if isinstance(a, Data):
        return (_qual(a), _payload_key(a.data))
    if isinstance(a, ParametrizedAttribute):
        return (_qual(a), tuple(attr_key(p) for p in a.parameters))
    raise TypeError(f"attr_key: not an attribute: {type(a)}")


def strip_floats(k):
    """Key with every float payload replaced by a placeholder (the 'skeleton')."""
    if isinstance(k, tuple):
        if len(k) == 2 and k[0] == "float":
            return ("float", "*")
        return tuple(strip_floats(x) for x in k)
    return k


def float_leaves(k, out=None):
    out = [] if out is None else out
    if isinstance(k, tuple):
        if len(k) == 2 and k[0] == "float":
            out.append(k[1])
        else:
            for x in k:
                float_leaves(x, out)
    return out


# ------------------------------------------------------------------------------------------------
# Hypothesis strategies (recipes)
_D = bits2d
F64_SPECIAL = [
    0x0000000000000000, 0x8000000000000000, 0x7FF0000000000000, 0xFFF0000000000000,
    0x7FF8000000000000, 0xFFF8000000000000, 0x7FF8000000000001, 0x7FF0000000000001,
    0x7FFFFFFFFFFFFFFF, 0x7FF4000020000000, 0x0000000000000001, 0x000FFFFFFFFFFFFF,
    0x0010000000000000, 0x7FEFFFFFFFFFFFFF, 0xFFEFFFFFFFFFFFFF,
] + [d2bits(x) for x in (
    1.0, -1.0, 0.1, 1 / 3, 2 / 3, 1234567.0, 16777217.0, 123456789.0, 1e22, 1e23, 1e-7, 5e-324,
    3.4028234663852886e38, 1.1754943508222875e-38, 1.401298464324817e-45, 65504.0, 5.96e-8,
    2.0 ** 70, 0.30000000000000004, 1.0000001192092896, 1.0000000000000002, 9007199254740993.0,
    448.0, 57344.0, 6.0, 0.5, 3.0, 1e10, 1e39, -2.5, 1e300, 12345678.0, 100000.0, 1e15)]


@functools.lru_cache(maxsize=None)
def fspec_s(name: str):
    w = float_width(name)
    opts = [
        st.sampled_from(F64_SPECIAL).map(lambda b: ["d", b]),
        st.integers(0, (1 << w) - 1).map(lambda b: ["w", b]),
        st.floats(allow_nan=True, allow_infinity=True).map(lambda x: ["d", d2bits(x)]),
    ]
    if name in ("f32", "bf16", "tf32", "f16"):
        opts.append(st.floats(width=32, allow_nan=False).map(lambda x: ["d", d2bits(x)]))
    if w >= 16:
        # boundary patterns of the declared width: all-ones exponent +- 1 ulp, smallest/largest
        e, m, _, s = FLOAT_LAYOUT[name]
        top = ((1 << e) - 1) << m
        pats = [0, 1, top, top | 1, top | (1 << (m - 1)) if m else top, top - 1, (1 << m) - 1,
                1 << m, top | ((1 << m) - 1)]
        pats += [p | (1 << (w - 1)) for p in pats] if s else []
        opts.append(st.sampled_from(pats).map(lambda b: ["w", b]))
    return st.one_of(*opts)


@functools.lru_cache(maxsize=None)
def float_name_s():
    return st.one_of(st.sampled_from(MAIN_FLOATS), st.sampled_from(FLOAT_NAMES))


WIDTHS = [1, 2, 3, 7, 8, 9, 15, 16, 17, 31, 32, 33, 63, 64, 65, 127, 128]


@functools.lru_cache(maxsize=None)
def int_type_s():
    return st.one_of(
        st.tuples(st.just("i"), st.sampled_from([1, 8, 16, 32, 64]), st.just(0)).map(list),
        st.tuples(st.just("i"), st.sampled_from(WIDTHS), st.integers(0, 2)).map(list),
        st.tuples(st.just("i"), st.integers(0, 130), st.integers(0, 2)).map(list),
        st.tuples(st.just("i"), st.sampled_from([256, 1000, 4096]), st.integers(0, 2)).map(list),
    )


def int_range(width: int, sgn: int):
    if sgn == 1:
        return -(1 << (width - 1)) if width else 0, (1 << (width - 1)) - 1 if width else 0
    if sgn == 2:
        return 0, (1 << width) - 1
    return (-(1 << (width - 1)) if width else 0), ((1 << width) - 1)


def int_value_s(ty, oor=True):
    """Values for an integer type recipe: boundaries, in-range, rarely just out of range."""
    if ty[0] == "index":
        return st.one_of(st.sampled_from([0, 1, -1, 2 ** 63 - 1, -2 ** 63, 2 ** 63, 2 ** 64 - 1,
                                          2 ** 64, -2 ** 64, 2 ** 100]),
                         st.integers(-2 ** 65, 2 ** 65))
    lo, hi = int_range(ty[1], ty[2])
    w = ty[1]
    bnd = sorted({lo, hi, 0, min(hi, 1), max(lo, -1), lo + 1 if lo < hi else lo,
                  hi - 1 if lo < hi else hi,
                  min(hi, (1 << (w - 1)) - 1) if w else 0, min(hi, 1 << (w - 1)) if w else 0})
    rng = st.integers(lo, hi)
    if not oor:
        return st.one_of(st.sampled_from(bnd), rng)
    return st.one_of(st.sampled_from(bnd), rng, st.sampled_from(bnd), rng, st.sampled_from(bnd),
                     rng, rng, st.sampled_from([lo - 1, hi + 1]))


def _typed_int_s(ty_s):
    return ty_s.flatmap(lambda ty: int_value_s(ty).map(lambda v: ["int", v, ty]))


@functools.lru_cache(maxsize=None)
def int_attr_s():
    return _typed_int_s(st.one_of(int_type_s(), st.just(["index"])))


@functools.lru_cache(maxsize=None)
def float_attr_s():
    return float_name_s().flatmap(lambda n: fspec_s(n).map(lambda f: ["float", f, n]))


STR_SPECIAL = ["", "a", "abc", "a b", "é", "\"", "\\", "\n", "\x00", "\t", "\x7f", "\x0b", "\r",
               "\\22", "\\", "a\\", "😀", "日本", "\x80", "ÿ", "unit", "true", "loc", "dense",
               "0x10", "a.b", "_x$", "1a", "-", "a\"b\\c\n", " ", " ", "%0", "@a", "//c"]


@functools.lru_cache(maxsize=None)
def text_s(max_size=6):
    return st.one_of(st.sampled_from(STR_SPECIAL), st.text(max_size=max_size),
                     st.text(alphabet=st.characters(min_codepoint=0, max_codepoint=0x7F),
                             max_size=max_size))


@functools.lru_cache(maxsize=None)
def ident_s():
    return st.one_of(st.sampled_from(["a", "b", "x_1", "a.b", "_", "A$", "value", "sym_name"]),
                     st.from_regex(r"[a-zA-Z_][a-zA-Z0-9_$.]{0,5}", fullmatch=True))


@functools.lru_cache(maxsize=None)
def key_s():
    return st.one_of(ident_s(), ident_s(), text_s(4))


@functools.lru_cache(maxsize=None)
def bytes_s():
    return st.one_of(
        st.binary(max_size=6),
        st.sampled_from([b"", b"abc", b"\x00", b"\xff", b"\xc3\xa9", b"a\"b", b"\\", b"\xc3",
                         b"\x80abc", b"\n", b"a\x00", b"\xf0\x9f\x98\x80"]),
        st.text(alphabet=st.characters(min_codepoint=32, max_codepoint=126),
                max_size=5).map(lambda s: s.encode()),
    ).map(lambda b: ["bytes", b.hex()])


def dims_s(max_rank=3, dynamic=False, max_dim=4):
    d = st.integers(0, max_dim)
    if dynamic:
        d = st.one_of(d, d, st.just(-1), st.sampled_from([7, 16, 1000, 2 ** 40]))
    return st.lists(d, max_size=max_rank)


@functools.lru_cache(maxsize=None)
def affine_expr_s(depth=2):
    leaf = st.one_of(st.tuples(st.just("d"), st.integers(0, 3)).map(list),
                     st.tuples(st.just("s"), st.integers(0, 3)).map(list),
                     st.tuples(st.just("c"), st.one_of(st.integers(-5, 9), st.sampled_from(
                         [0, 1, -1, 2 ** 63 - 1, -2 ** 63, 2 ** 64]))).map(list))
    if depth == 0:
        return leaf
    sub = affine_expr_s(depth - 1)
    pos = st.one_of(st.integers(1, 9), st.sampled_from([1, 2, 2 ** 31, 2 ** 64]))
    return st.one_of(
        leaf,
        st.tuples(st.just("+"), sub, sub).map(list),
        st.tuples(st.just("*"), sub, st.integers(-4, 6)).map(list),
        st.tuples(st.sampled_from(["mod", "fdiv", "cdiv"]), sub, pos).map(list),
    )


@functools.lru_cache(maxsize=None)
def affine_map_s():
    return st.tuples(st.just("amap"), st.integers(0, 3), st.integers(0, 2),
                     st.lists(affine_expr_s(), max_size=3)).map(list)


@functools.lru_cache(maxsize=None)
def affine_set_s():
    c = st.tuples(st.sampled_from(["ge", "le", "eq"]), affine_expr_s(1), affine_expr_s(1)).map(list)
    return st.tuples(st.just("aset"), st.integers(0, 3), st.integers(0, 2),
                     st.lists(c, max_size=3)).map(list)


@functools.lru_cache(maxsize=None)
def strided_s():
    v = st.one_of(st.integers(-3, 9), st.none(), st.sampled_from([0, 1, 2 ** 63, -2 ** 63]))
    return st.tuples(st.just("strided"), st.lists(v, max_size=3), v).map(list)


@functools.lru_cache(maxsize=None)
def scalar_type_s():
    # NB: `one_of(...).map(f)` multiplies the branch count of the enclosing one_of; wrap in tuples
    return st.one_of(int_type_s(), st.just(["index"]), float_type_s(), float_type_s(),
                     st.just(["nonetype"]),
                     st.tuples(st.just("complex"), st.one_of(int_type_s(), float_type_s())).map(list))


@functools.lru_cache(maxsize=None)
def float_type_s():
    return st.tuples(st.just("f"), float_name_s()).map(list)


@functools.lru_cache(maxsize=None)
def space_s(d):
    """memory space / encoding: an attribute that is not itself a memref layout (the textual
    grammar, like MLIR's, reads a layout attribute in second position as the layout)."""
    base = [int_attr_s(), st.tuples(st.just("str"), text_s()).map(list), st.just(["unit"]),
            st.tuples(st.just("symref"), key_s(), st.just([])).map(list)]
    if d > 0:
        sub = attr_s(d - 1)
        base.append(st.tuples(st.just("array"), st.lists(sub, max_size=2)).map(list))
        base.append(st.tuples(st.just("dict"), st.lists(
            st.tuples(key_s(), sub).map(list), max_size=2, unique_by=lambda kv: kv[0])).map(list))
    return st.one_of(*base)


@functools.lru_cache(maxsize=None)
def type_s(d: int):
    if d <= 0:
        return scalar_type_s()
    sub = type_s(d - 1)
    vec_dims = st.lists(st.integers(0, 5), max_size=3)
    vector = vec_dims.flatmap(lambda ds: st.tuples(
        st.just("vector"), sub, st.just(ds),
        st.one_of(st.just([0] * len(ds)), st.lists(st.integers(0, 1), min_size=len(ds),
                                                   max_size=len(ds)))).map(list))
    tensor = st.tuples(st.just("tensor"), sub, dims_s(dynamic=True),
                       st.one_of(st.none(), st.none(), space_s(d - 1))).map(list)
    layout = st.one_of(st.none(), st.none(), affine_map_s(), strided_s())
    memref = st.tuples(st.just("memref"), sub, dims_s(dynamic=True), layout,
                       st.one_of(st.none(), st.none(), space_s(d - 1))).map(list)
    umemref = st.tuples(st.just("umemref"), sub, st.one_of(st.none(), space_s(d - 1))).map(list)
    func = st.tuples(st.just("func"), st.lists(sub, max_size=3), st.lists(sub, max_size=3)).map(list)
    tup = st.tuples(st.just("tuple"), st.lists(sub, max_size=3)).map(list)
    return st.one_of(scalar_type_s(), vector, tensor,
                     st.tuples(st.just("utensor"), sub).map(list), memref, umemref, func, tup)


def _elem_s(elt):
    if elt[0] == "complex":
        inner = elt[1]
        if inner[0] == "i" and inner[2] == 0:
            # complex<iN> components are packed without signless normalisation: stay in the
            # signed range, which every signless consumer accepts
            inner = ["i", inner[1], 1]
        e = int_value_s(inner, oor=False) if inner[0] == "i" else _elem_s(inner)
        return st.tuples(e, e).map(list)
    if elt[0] == "f":
        return fspec_s(elt[1])
    if elt[0] == "index":  # dense index elements are stored as 64-bit
        return st.one_of(st.sampled_from([0, 1, -1, 2 ** 63 - 1, -2 ** 63]),
                         st.integers(-2 ** 63, 2 ** 63 - 1))
    return int_value_s(elt)


@functools.lru_cache(maxsize=None)
def dense_elt_s():
    ints = st.one_of(
        st.tuples(st.just("i"), st.sampled_from([1, 8, 16, 32, 64]), st.integers(0, 2)).map(list),
        st.tuples(st.just("i"), st.sampled_from([1, 2, 3, 7, 9, 17, 33, 63, 64, 65, 128]),
                  st.integers(0, 2)).map(list),
        st.just(["index"]))
    floats = float_type_s()
    cplx = st.tuples(st.just("complex"), st.one_of(
        st.sampled_from([["f", "f32"], ["f", "f64"], ["f", "f16"]]),
        st.tuples(st.just("i"), st.sampled_from([8, 32, 64]), st.integers(0, 2)).map(list))).map(list)
    return st.one_of(ints, floats, floats, cplx)


@functools.lru_cache(maxsize=None)
def dense_s():
    def shaped(elt):
        shape = st.one_of(dims_s(max_rank=3, max_dim=3), st.sampled_from([[], [0], [1], [2, 0],
                                                                          [101], [8, 13]]))
        return st.one_of(
            shape.map(lambda s: ["tensor", elt, s, None]),
            shape.map(lambda s: ["vector", elt, s, [0] * len(s)]),
            shape.map(lambda s: ["memref", elt, s, None, None]),
            shape.map(lambda s: ["tensor", elt, s, ["str", "enc"]]))

    def with_vals(sh):
        elt = sh[1]
        return st.tuples(st.just("dense"), st.just(sh),
                         st.lists(_elem_s(elt), min_size=1, max_size=4),
                         st.sampled_from(["cycle", "cycle", "splat"])).map(list)

    return dense_elt_s().flatmap(shaped).flatmap(with_vals)


@functools.lru_cache(maxsize=None)
def densearr_s():
    elt = st.one_of(
        st.tuples(st.just("i"), st.sampled_from([1, 8, 16, 32, 64]), st.just(0)).map(list),
        st.sampled_from([["f", "f32"], ["f", "f64"]]),
        st.tuples(st.just("i"), st.sampled_from([3, 8, 16, 24, 64]), st.integers(0, 2)).map(list),
        st.sampled_from([["f", "f16"], ["f", "bf16"]]))
    return elt.flatmap(lambda e: st.lists(_elem_s(e), max_size=4).map(
        lambda vs: ["densearr", e, vs]))


@functools.lru_cache(maxsize=None)
def loc_s(d: int):
    name = text_s(4)
    nat = st.one_of(st.integers(0, 200), st.sampled_from([0, 1, 2 ** 32, 2 ** 64]))
    leaf = st.one_of(st.just(["loc_unknown"]),
                     st.tuples(st.just("loc_file"), name, nat, nat).map(list),
                     st.tuples(st.just("loc_name"), name, st.none()).map(list))
    if d <= 0:
        return leaf
    sub = loc_s(d - 1)
    return st.one_of(
        leaf,
        st.tuples(st.just("loc_callsite"), sub, sub).map(list),
        st.tuples(st.just("loc_name"), name, sub).map(list),
        st.tuples(st.just("loc_fused"), st.lists(sub, max_size=3),
                  st.one_of(st.none(), st.none(), st.none(), atom_s())).map(list),
    )


@functools.lru_cache(maxsize=None)
def one(s):
    """Collapse a (flattened) one_of into a single branch of the enclosing one_of."""
    return st.tuples(s).map(lambda t: t[0])


@functools.lru_cache(maxsize=None)
def atom_s():
    return st.one_of(
        int_attr_s(), float_attr_s(), float_attr_s(),
        st.tuples(st.just("str"), text_s()).map(list), st.tuples(st.just("str"), text_s()).map(list),
        one(bytes_s()),
        st.just(["unit"]),
        st.tuples(st.just("symref"), key_s(), st.lists(key_s(), max_size=2)).map(list),
        one(loc_s(0)), affine_map_s(), affine_set_s(), strided_s(), dense_s(), dense_s(),
        densearr_s(), one(scalar_type_s()),
    )


@functools.lru_cache(maxsize=None)
def attr_s(d: int):
    """Attribute-or-type recipes nested to depth <= d+1."""
    if d <= 0:
        return st.one_of(*([one(atom_s())] * 12), st.just(["none"]))
    sub = attr_s(d - 1)
    entries = st.lists(st.tuples(key_s(), sub).map(list), max_size=3,
                       unique_by=lambda kv: kv[0])
    shaped = st.one_of(
        st.tuples(st.just("tensor"), scalar_type_s(), dims_s(), st.none()).map(list),
        st.tuples(st.just("memref"), scalar_type_s(), dims_s(), st.none(), st.none()).map(list))
    arr = st.tuples(st.just("array"), st.lists(sub, max_size=3)).map(list)
    dic = st.tuples(st.just("dict"), entries).map(list)
    return st.one_of(
        one(atom_s()), one(atom_s()), arr, arr, arr, dic, dic, dic,
        one(type_s(d)), one(type_s(d)), one(type_s(d)), one(loc_s(d)),
        st.tuples(st.just("opaque"), text_s(4), text_s(4),
                  st.one_of(st.none(), type_s(d - 1))).map(list),
        st.tuples(st.just("dres"), ident_s(), shaped).map(list),
    )
