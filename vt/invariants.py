"""Whole-tree structural and use-def invariant walker (C01; reused by C02, C11, C17).

check(roots, erased=()) -> list[(code, message)]

`roots` are all top-level IR objects that are alive (parent-less operations, blocks, regions).
Invariants (exactly what property C01 states):
  * every op/block/region is found exactly once in its container, in both forward and backward
    order, and points back to that container; roots have no parent and no siblings;
  * result/argument positions equal their index and point to their owner;
  * every value's use list and every block's use list (walked through first_use/_next_use, with
    _prev_use consistent) is exactly the set of (user, position) pairs found in operand /
    successor lists of live ops, and the Use objects are the ones the users hold;
  * predecessors() is the multiset of parent blocks of the using terminators;
  * nothing alive refers to an erased operation.
"""
from __future__ import annotations

from collections import Counter

LIMIT = 100000


def _walk_list(first, nxt, prv, last, what, errs):
    fwd = []
    seen = set()
    x = first
    while x is not None:
        if id(x) in seen or len(fwd) > LIMIT:
            errs.append((f"{what}_cycle", f"cycle in forward {what} list"))
            return fwd
        seen.add(id(x))
        fwd.append(x)
        x = getattr(x, nxt)
    bwd = []
    seen = set()
    x = last
    while x is not None:
        if id(x) in seen or len(bwd) > LIMIT:
            errs.append((f"{what}_cycle", f"cycle in backward {what} list"))
            return fwd
        seen.add(id(x))
        bwd.append(x)
        x = getattr(x, prv)
    if [id(e) for e in fwd] != [id(e) for e in reversed(bwd)]:
        errs.append((f"{what}_fwd_bwd", f"forward {what} list ({len(fwd)}) is not the reverse of the backward list ({len(bwd)})"))
    if fwd:
        if getattr(fwd[0], prv) is not None:
            errs.append((f"{what}_head", f"first {what} has a predecessor link"))
        if getattr(fwd[-1], nxt) is not None:
            errs.append((f"{what}_tail", f"last {what} has a successor link"))
    return fwd


class Universe:
    def __init__(self):
        self.ops: dict[int, object] = {}
        self.blocks: dict[int, object] = {}
        self.regions: dict[int, object] = {}
        self.errs: list[tuple[str, str]] = []

    def add_op(self, op, parent):
        if id(op) in self.ops:
            self.errs.append(("op_twice", f"operation {op.name} found twice"))
            return
        self.ops[id(op)] = op
        if op.parent is not parent:
            self.errs.append(("op_parent", f"operation {op.name}: parent is not its containing block"))
        for i, r in enumerate(op.results):
            if r.op is not op or r.index != i:
                self.errs.append(("result_index", f"result {i} of {op.name}: owner/index mismatch ({r.index})"))
        if len(op._operands) != len(op._operand_uses):
            self.errs.append(("operand_uses_len", f"{op.name}: {len(op._operands)} operands, {len(op._operand_uses)} uses"))
        if len(op._successors) != len(op._successor_uses):
            self.errs.append(("successor_uses_len", f"{op.name}: {len(op._successors)} successors, {len(op._successor_uses)} uses"))
        for uses, kind in ((op._operand_uses, "operand"), (op._successor_uses, "successor")):
            for i, u in enumerate(uses):
                if u._operation is not op or u._index != i:
                    self.errs.append((f"{kind}_use_backref", f"{op.name}: {kind} use {i} does not point back to (op, {i})"))
        seen_r = set()
        for reg in op.regions:
            if id(reg) in seen_r:
                self.errs.append(("region_twice", f"{op.name}: region listed twice"))
                continue
            seen_r.add(id(reg))
            self.add_region(reg, op)

    def add_block(self, b, parent):
        if id(b) in self.blocks:
            self.errs.append(("block_twice", "block found twice"))
            return
        self.blocks[id(b)] = b
        if b.parent is not parent:
            self.errs.append(("block_parent", "block: parent is not its containing region"))
        for i, a in enumerate(b.args):
            if a.block is not b or a.index != i:
                self.errs.append(("arg_index", f"block argument {i}: owner/index mismatch ({a.index})"))
        ops = _walk_list(b._first_op, "_next_op", "_prev_op", b._last_op, "op", self.errs)
        for op in ops:
            self.add_op(op, b)

    def add_region(self, r, parent):
        if id(r) in self.regions:
            self.errs.append(("region_twice", "region found twice"))
            return
        self.regions[id(r)] = r
        if r.parent is not parent:
            self.errs.append(("region_parent", "region: parent is not its containing operation"))
        blocks = _walk_list(r._first_block, "_next_block", "_prev_block", r._last_block, "block", self.errs)
        for b in blocks:
            self.add_block(b, r)


def _use_list(v, errs, what):
    out = []
    seen = set()
    u = v.first_use
    prev = None
    while u is not None:
        if id(u) in seen or len(out) > LIMIT:
            errs.append(("use_cycle", f"cycle in use list of {what}"))
            break
        seen.add(id(u))
        if u._prev_use is not prev:
            errs.append(("use_prev", f"_prev_use inconsistent in use list of {what}"))
        out.append(u)
        prev = u
        u = u._next_use
    return out


def check(roots, erased=()) -> list[tuple[str, str]]:
    from xdsl.ir import Block, ErasedSSAValue, Operation, Region
    U = Universe()
    errs = U.errs
    for root in roots:
        if isinstance(root, Operation):
            if root._next_op is not None or root._prev_op is not None:
                errs.append(("root_op_links", f"detached op {root.name} still has sibling links"))
            U.add_op(root, None)
        elif isinstance(root, Block):
            if root._next_block is not None or root._prev_block is not None:
                errs.append(("root_block_links", "detached block still has sibling links"))
            U.add_block(root, None)
        elif isinstance(root, Region):
            U.add_region(root, None)
        else:
            raise TypeError(type(root))
    erased_ids = {id(e) for e in erased}

    # expected uses
    exp_val: dict[int, list] = {}
    exp_blk: dict[int, list] = {}
    vals: dict[int, object] = {}
    for op in U.ops.values():
        for r in op.results:
            vals[id(r)] = r
    for b in U.blocks.values():
        for a in b.args:
            vals[id(a)] = a
    for op in U.ops.values():
        for i, v in enumerate(op._operands):
            vals.setdefault(id(v), v)
            if i < len(op._operand_uses):
                exp_val.setdefault(id(v), []).append(op._operand_uses[i])
            owner = None if isinstance(v, ErasedSSAValue) else getattr(v, "owner", None)
            if owner is not None and id(owner) in erased_ids:
                errs.append(("operand_of_erased_owner", f"{op.name} operand {i} is defined by an erased operation"))
        for i, s in enumerate(op._successors):
            if i < len(op._successor_uses):
                exp_blk.setdefault(id(s), []).append(op._successor_uses[i])
    for vid, v in vals.items():
        got = _use_list(v, errs, "value")
        exp = exp_val.get(vid, [])
        if Counter(id(u) for u in got) != Counter(id(u) for u in exp):
            for u in got:
                if id(u._operation) in erased_ids:
                    errs.append(("use_by_erased_op", f"use list of a value contains erased op {u._operation.name}"))
                    break
                if id(u._operation) not in U.ops:
                    errs.append(("use_by_unknown_op", f"use list of a value contains op {u._operation.name} that is not in any live tree"))
                    break
            else:
                errs.append(("use_list_mismatch", f"value use list has {len(got)} uses, operand lists hold {len(exp)}"))
        else:
            for u in got:
                op = u._operation
                if not (u._index < len(op._operands) and op._operands[u._index] is v):
                    errs.append(("use_wrong_operand", f"use ({op.name},{u._index}) is in the use list of a value that is not that operand"))
    for bid, b in U.blocks.items():
        got = _use_list(b, errs, "block")
        exp = exp_blk.get(bid, [])
        if Counter(id(u) for u in got) != Counter(id(u) for u in exp):
            errs.append(("block_use_list_mismatch", f"block use list has {len(got)} uses, successor lists hold {len(exp)}"))
        else:
            for u in got:
                op = u._operation
                if not (u._index < len(op._successors) and op._successors[u._index] is b):
                    errs.append(("block_use_wrong_successor", f"use ({op.name},{u._index}) is in the use list of a block that is not that successor"))
        preds = Counter(id(p) for p in b.predecessors())
        expp = Counter(id(u._operation.parent) for u in exp if u._operation.parent is not None)
        if preds != expp:
            errs.append(("predecessors_mismatch", f"predecessors() has {sum(preds.values())} entries, expected {sum(expp.values())}"))
    return errs
