"""Deterministic, time-bounded delta-debugging of JSON recipes (lists shortened, ints lowered).

shrink(recipe, fails, budget_s) -> smaller recipe for which fails(recipe) is still True.
`fails` must be a pure predicate; candidates on which it raises are treated as not failing.
"""
from __future__ import annotations

import copy
import time


def _paths(x, path=()):
    """All paths to lists / ints / strings inside a JSON value, outermost first."""
    out = []
    if isinstance(x, list):
        out.append((path, "list"))
        for i, e in enumerate(x):
            out.extend(_paths(e, path + (i,)))
    elif isinstance(x, dict):
        for k in sorted(x):
            out.extend(_paths(x[k], path + (k,)))
    elif isinstance(x, bool):
        pass
    elif isinstance(x, int):
        out.append((path, "int"))
    elif isinstance(x, str):
        out.append((path, "str"))
    return out


def _get(x, path):
    for p in path:
        x = x[p]
    return x


def _set(x, path, val):
    if not path:
        return val
    x = copy.deepcopy(x)
    cur = x
    for p in path[:-1]:
        cur = cur[p]
    cur[path[-1]] = val
    return x


def shrink(recipe, fails, budget_s: float = 20.0):
    t_end = time.time() + budget_s

    def ok(r):
        if time.time() > t_end:
            return False
        try:
            return bool(fails(r))
        except Exception:
            return False

    cur = recipe
    progress = True
    while progress and time.time() < t_end:
        progress = False
        # 1. shorten lists: remove chunks of decreasing size
        for path, kind in _paths(cur):
            if time.time() > t_end:
                break
            if kind != "list":
                continue
            try:
                lst = _get(cur, path)
            except (KeyError, IndexError, TypeError):
                continue
            if not isinstance(lst, list) or not lst:
                continue
            n = len(lst)
            chunk = n
            while chunk >= 1 and time.time() < t_end:
                i = 0
                while i < len(lst):
                    cand_list = lst[:i] + lst[i + chunk:]
                    cand = _set(cur, path, cand_list)
                    if ok(cand):
                        cur, lst, progress = cand, cand_list, True
                    else:
                        i += chunk
                chunk //= 2
        # 2. lower ints / shorten strings
        for path, kind in _paths(cur):
            if time.time() > t_end:
                break
            try:
                v = _get(cur, path)
            except (KeyError, IndexError, TypeError):
                continue
            if kind == "int" and isinstance(v, int) and not isinstance(v, bool) and v != 0:
                for c in (0, v // 2, v - 1 if v > 0 else v + 1):
                    if c != v and abs(c) < abs(v):
                        cand = _set(cur, path, c)
                        if ok(cand):
                            cur, progress = cand, True
                            break
            elif kind == "str" and isinstance(v, str) and len(v) > 1:
                for c in (v[: len(v) // 2], v[len(v) // 2:], v[1:], v[:-1]):
                    cand = _set(cur, path, c)
                    if ok(cand):
                        cur, progress = cand, True
                        break
    return cur
