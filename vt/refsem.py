"""refsem -- an independent reference evaluator of MLIR semantics over xDSL IR data structures.

Written from the MLIR LangRef / `arith`, `scf`, `cf`, `func`, `memref`, `affine` dialect documentation.
It walks `func.func` bodies directly through the generic IR accessors (`op.name`, `op.operands`,
`op.results`, `op.properties`, `op.regions`, `op.successors`) and shares NO code with
`xdsl.interpreters`, the folders, or `xdsl.utils.comparisons`.

Value model
-----------
* integers (iN, index): Python ints normalised to the UNSIGNED bit pattern in [0, 2^w); `to_signed` /
  `to_unsigned` give the two views.  The width of `index` is the `index_bits` parameter (default 64).
* floats: Python floats.  f32 (f16) results are rounded through `struct.pack('f')` (`'e'`); computing
  + - * / in double and rounding once more is exact (innocuous double rounding, 53 >= 2*24+2).
  NaNs are "any NaN" (payload and sign of a NaN are not modelled), everything else is bit exact
  (-0.0 != 0.0) -- see `values_equal`.
* memrefs: `MemRef` objects (shape, element type name, flat row-major list; uninitialised cells hold POISON).
* POISON: sentinel for results MLIR leaves undefined/poison: div/rem by zero, INT_MIN / -1,
  shift amount >= width, fptosi/fptoui out of range or of NaN/inf, violated nsw/nuw flags, plus results the
  documentation leaves *unspecified* (minnumf/maxnumf of zeros with different signs, float->int bitcast of
  a NaN).  POISON propagates through every op (except the non-selected operand of `arith.select`).
  Branching on POISON, using it as a loop bound / switch flag / memory index, out-of-bounds or
  use-after-free accesses and `scf.for` with step <= 0 make the WHOLE run POISON.
  Immediate undefined behaviour (division by zero, ...) is additionally recorded in `Result.ub`, so that a
  caller can exclude the entire run (MLIR gives such a run no meaning at all).
* symref (frontend dialect): `symref.declare @s` introduces a mutable, function-local variable (per call frame,
  uninitialised = POISON; re-executing the declare resets it), `symref.update @s = %v` assigns,
  `symref.fetch @s` reads; fetch/update of a symbol that was not declared in the running frame raises
  `MalformedIR`.
* effects: ordered list of `(kind, name, args, type_names)` tuples: ("call", callee, ...) for calls of
  external declarations (they return deterministic pseudo-values, see `external_results`),
  ("print", format_string, ...) for printf.print_format, ("op", op_name, ...) for unknown ops without results.

Public API
----------
    run_function(module, name, args, index_bits=64, fuel=100000, trace=None, envs=None) -> Result
    run_function_any_index(module, name, args, fuel=100000) -> Result     (POISON if 32/64-bit index disagree)
    eval_op(op, args, index_bits=64) -> tuple          one region-free arith op on refsem-form operands
    arith_eval(name, args, in_tys, out_tys, attrs=None, index_bits=64) -> tuple      IR independent core
    values_equal(a, b, type=None, index_bits=64) -> bool
    compare_results(before, after) -> (verdict, detail)   verdict in {"equal", "differ", "excluded"}
    effects_equal(e1, e2) -> bool
    external_results(callee, call_index, result_type_names, index_bits=64) -> tuple
    to_signed(v, w) / to_unsigned(v, w) / round_float(x, tyname) / float_to_bits / bits_to_float
    type_name(attr) -> "i8" | "index" | "f32" | "memref<4xi32>" ...;  int_width(tyname, index_bits)
    MemRef, POISON, OUT_OF_FUEL, UnsupportedOp, selftest()
"""
from __future__ import annotations

import math
import struct
import zlib

__all__ = ["POISON", "OUT_OF_FUEL", "Result", "MemRef", "UnsupportedOp", "MalformedIR", "run_function",
           "run_function_any_index", "eval_op", "arith_eval", "values_equal", "compare_results",
           "effects_equal", "external_results", "to_signed", "to_unsigned", "round_float",
           "float_to_bits", "bits_to_float", "type_name", "int_width", "selftest"]


class _Sentinel:
    __slots__ = ("_name",)

    def __init__(self, name):
        self._name = name

    def __repr__(self):
        return self._name

    def __reduce__(self):
        return self._name

    def __deepcopy__(self, memo):
        return self

    def __copy__(self):
        return self


POISON = _Sentinel("POISON")
OUT_OF_FUEL = _Sentinel("OUT_OF_FUEL")


class UnsupportedOp(Exception):
    """The program contains an operation / type refsem has no semantics for (caller: discard)."""


class MalformedIR(UnsupportedOp):
    """The IR verifies but cannot be executed because it is ill-formed in a way the verifier does not see
    (e.g. `symref.fetch` / `symref.update` of a symbol that no executed `symref.declare` introduced)."""


class _PoisonRun(Exception):
    pass


class _OutOfFuel(Exception):
    pass


class Result:
    """values: tuple of result values (each possibly POISON) | POISON (whole run) | OUT_OF_FUEL."""
    __slots__ = ("values", "effects", "ub", "steps", "trips", "why", "npoison", "args")

    def __init__(self, values, effects, ub=(), steps=0, trips=(), why="", npoison=0):
        self.npoison = npoison      # executed operations that produced a POISON result (used or not)
        self.args = ()              # normalised arguments after the run (MemRef arguments show the final buffers)
        self.values = values
        self.effects = list(effects)
        self.ub = list(ub)          # immediate-UB events ("arith.divsi by zero", ...)
        self.steps = steps          # operations executed
        self.trips = list(trips)    # trip count of every executed loop instance (scf.for/while, affine.for)
        self.why = why              # reason of a whole-run POISON

    @property
    def ok(self) -> bool:
        """Ran to completion (individual values may still be POISON)."""
        return isinstance(self.values, tuple)

    @property
    def defined(self) -> bool:
        """Ran to completion, no UB, no POISON among results or effect arguments."""
        if not self.ok or self.ub:
            return False
        if any(v is POISON for v in self.values):
            return False
        return not any(a is POISON for e in self.effects for a in e[2])

    def __repr__(self):
        return f"Result({self.values!r}, effects={self.effects!r}, ub={self.ub!r})"


class MemRef:
    """A small dense buffer.  `data` is row-major; cells never written hold POISON."""
    __slots__ = ("shape", "elem", "data", "alive")

    def __init__(self, shape, elem, data=None):
        self.shape = tuple(shape)
        self.elem = elem
        n = 1
        for s in self.shape:
            n *= s
        self.data = list(data) if data is not None else [POISON] * n
        if len(self.data) != n:
            raise ValueError("MemRef data does not match shape")
        self.alive = True

    def copy(self):
        m = MemRef(self.shape, self.elem, self.data)
        m.alive = self.alive
        return m

    def __repr__(self):
        return f"MemRef({self.shape}, {self.elem}, {self.data})"


# ---------------------------------------------------------------------------------------------
# scalar helpers
# ---------------------------------------------------------------------------------------------

def to_unsigned(v: int, w: int) -> int:
    return v & ((1 << w) - 1)


def to_signed(v: int, w: int) -> int:
    v &= (1 << w) - 1
    return v - (1 << w) if (v >> (w - 1)) & 1 else v


_FPK = {"f16": ("<e", "<H", 16), "f32": ("<f", "<I", 32), "f64": ("<d", "<Q", 64)}


def round_float(x: float, ty: str) -> float:
    """Round a Python float (double) to the nearest value of `ty` (ties to even)."""
    if ty == "f64":
        return float(x)
    if x != x or x in (math.inf, -math.inf):
        return float(x)
    try:
        fmt = _FPK[ty][0]
    except KeyError:
        raise UnsupportedOp(f"float type {ty}") from None
    try:
        return struct.unpack(fmt, struct.pack(fmt, x))[0]
    except OverflowError:   # finite double beyond the largest finite value + half ulp
        return math.copysign(math.inf, x)


def float_to_bits(x: float, ty: str) -> int:
    fmt, ifmt, _ = _FPK[ty]
    return struct.unpack(ifmt, struct.pack(fmt, round_float(x, ty)))[0]


def bits_to_float(b: int, ty: str) -> float:
    fmt, ifmt, w = _FPK[ty]
    return struct.unpack(fmt, struct.pack(ifmt, b & ((1 << w) - 1)))[0]


def _int_to_float(n: int, ty: str):
    """Correctly rounded (nearest-even) conversion of an arbitrary Python int to float type ty."""
    if n == 0:
        return 0.0
    neg = n < 0
    a = -n if neg else n
    bl = a.bit_length()
    if bl > 53:
        # keep 53 bits, fold everything below into a sticky bit: a single correctly rounded step follows
        sh = bl - 53
        m = a >> sh
        if a & ((1 << sh) - 1):
            m |= 1
        if ty == "f64":
            # 53 significant bits + sticky: do the nearest-even step by hand on one more bit
            sh2 = bl - 54
            m2 = a >> sh2
            rest = a & ((1 << sh2) - 1)
            keep, half = m2 >> 1, m2 & 1
            if half and (rest or (keep & 1)):
                keep += 1
            x = math.ldexp(float(keep), sh2 + 1)
        else:
            x = math.ldexp(float(m), sh)
    else:
        x = float(a)    # exact
    x = round_float(x, ty)
    if x == math.inf:
        return POISON   # value does not fit the destination format: undefined in LLVM
    return -x if neg else x


def int_width(ty: str, index_bits: int = 64) -> int:
    if ty == "index":
        return index_bits
    if ty[0] == "i" and ty[1:].isdigit():
        return int(ty[1:])
    raise UnsupportedOp(f"not an integer type: {ty}")


def _is_float(ty: str) -> bool:
    return ty in ("f16", "f32", "f64")


def _is_int(ty: str) -> bool:
    return ty == "index" or (ty[:1] == "i" and ty[1:].isdigit())


_tn_cache: dict = {}


def type_name(t) -> str:
    """Short name of an xDSL type attribute: i8, index, f32, memref<2x3xi32>; others: str(t)."""
    try:
        return _tn_cache[t]
    except KeyError:
        pass
    except TypeError:
        return str(t)
    from xdsl.dialects import builtin as b
    if isinstance(t, b.IntegerType):
        n = f"i{t.width.data}"
    elif isinstance(t, b.IndexType):
        n = "index"
    elif isinstance(t, b.Float16Type):
        n = "f16"
    elif isinstance(t, b.Float32Type):
        n = "f32"
    elif isinstance(t, b.Float64Type):
        n = "f64"
    elif isinstance(t, b.MemRefType):
        n = "memref<" + "x".join([str(s) for s in t.get_shape()] + [type_name(t.element_type)]) + ">"
    else:
        n = str(t)
    _tn_cache[t] = n
    return n


def values_equal(a, b, type=None, index_bits: int = 64) -> bool:
    """Bit-exact equality of two refsem values; all NaNs are equal; -0.0 != 0.0; POISON only equals POISON.
    `type` (a type name or xDSL type) is only needed to compare integers that are not yet normalised."""
    if a is POISON or b is POISON:
        return a is b
    if isinstance(a, MemRef) or isinstance(b, MemRef):
        if not (isinstance(a, MemRef) and isinstance(b, MemRef)):
            return False
        return (a.shape == b.shape and a.elem == b.elem and len(a.data) == len(b.data)
                and all(values_equal(x, y, a.elem, index_bits) for x, y in zip(a.data, b.data)))
    fa, fb = isinstance(a, float), isinstance(b, float)
    if fa or fb:
        if not (fa and fb):
            return False
        if a != a or b != b:
            return a != a and b != b
        return a == b and math.copysign(1.0, a) == math.copysign(1.0, b)
    if type is not None:
        ty = type if isinstance(type, str) else type_name(type)
        if _is_int(ty):
            w = int_width(ty, index_bits)
            return to_unsigned(int(a), w) == to_unsigned(int(b), w)
    return int(a) == int(b)


def effects_equal(e1, e2) -> bool:
    if len(e1) != len(e2):
        return False
    for x, y in zip(e1, e2):
        if x[0] != y[0] or x[1] != y[1] or len(x[2]) != len(y[2]) or tuple(x[3]) != tuple(y[3]):
            return False
        if not all(values_equal(p, q) for p, q in zip(x[2], y[2])):
            return False
    return True


def compare_results(before: Result, after: Result):
    """Refinement check used by pass-preservation properties.

    ("excluded", why): `before` has no defined meaning as a whole (POISON run, UB event, out of fuel) or
                       `after` ran out of fuel;
    ("differ", why):   `after` is POISON / returns another value where `before` is defined, or the effect
                       logs differ (positions where `before` holds POISON may become anything);
    ("equal", "")."""
    if not before.ok:
        return "excluded", f"before is {before.values!r} {before.why}"
    if before.ub:
        return "excluded", f"before has UB: {before.ub[0]}"
    if after.values is OUT_OF_FUEL:
        return "excluded", "after ran out of fuel"
    if not after.ok:
        return "differ", f"after is {after.values!r} ({after.why}) but before is defined"
    if after.ub:
        return "differ", f"after has UB ({after.ub[0]}) but before has none"
    if len(before.values) != len(after.values):
        return "differ", "different number of results"
    for i, (x, y) in enumerate(zip(before.values, after.values)):
        if x is POISON:
            continue
        if not values_equal(x, y):
            return "differ", f"result {i}: before {x!r} after {y!r}"
    if len(before.effects) != len(after.effects):
        return "differ", f"effect logs differ in length: {before.effects!r} vs {after.effects!r}"
    for i, (x, y) in enumerate(zip(before.effects, after.effects)):
        if x[0] != y[0] or x[1] != y[1] or len(x[2]) != len(y[2]):
            return "differ", f"effect {i}: before {x!r} after {y!r}"
        for p, q in zip(x[2], y[2]):
            if p is POISON:
                continue
            if not values_equal(p, q):
                return "differ", f"effect {i}: before {x!r} after {y!r}"
    return "equal", ""


def external_results(callee: str, call_index: int, result_tys, index_bits: int = 64) -> tuple:
    """Deterministic pseudo-values returned by the call_index-th (0-based, per run) external call."""
    out = []
    for j, ty in enumerate(result_tys):
        h = zlib.crc32(f"{callee}#{call_index}#{j}".encode())
        if _is_float(ty):
            out.append(((h % 2001) - 1000) / 8.0)
        elif _is_int(ty):
            w = int_width(ty, index_bits)
            out.append(((h * 0x9E3779B97F4A7C15) >> 7) & ((1 << w) - 1))
        else:
            raise UnsupportedOp(f"external call returning {ty}")
    return tuple(out)


# ---------------------------------------------------------------------------------------------
# arith: the IR-independent core
# ---------------------------------------------------------------------------------------------

CMPI = ["eq", "ne", "slt", "sle", "sgt", "sge", "ult", "ule", "ugt", "uge"]
CMPF = ["false", "oeq", "ogt", "oge", "olt", "ole", "one", "ord",
        "ueq", "ugt", "uge", "ult", "ule", "une", "uno", "true"]


def _trunc_div(a: int, b: int) -> int:
    q = a // b                      # floor
    if q * b != a and ((a < 0) != (b < 0)):
        q += 1                      # towards zero
    return q


def _fdiv(a: float, b: float) -> float:
    if b == 0.0:
        if a != a or a == 0.0:
            return math.nan
        return math.copysign(math.inf, a) * math.copysign(1.0, b)
    return a / b


def _fmin(a, b, propagate_nan):
    an, bn = a != a, b != b
    if an or bn:
        if propagate_nan or (an and bn):
            return math.nan
        return b if an else a
    if a == 0.0 and b == 0.0:
        sa, sb = math.copysign(1.0, a), math.copysign(1.0, b)
        if sa != sb:
            return -0.0 if propagate_nan else POISON     # minnumf: "either of them"
        return a
    return a if a < b else b


def _fmax(a, b, propagate_nan):
    an, bn = a != a, b != b
    if an or bn:
        if propagate_nan or (an and bn):
            return math.nan
        return b if an else a
    if a == 0.0 and b == 0.0:
        sa, sb = math.copysign(1.0, a), math.copysign(1.0, b)
        if sa != sb:
            return 0.0 if propagate_nan else POISON
        return a
    return a if a > b else b


def _cmpf(p: int, a: float, b: float) -> int:
    u = a != a or b != b
    o = not u
    name = CMPF[p]
    if name == "false":
        r = False
    elif name == "true":
        r = True
    elif name == "ord":
        r = o
    elif name == "uno":
        r = u
    else:
        rel = name[1:]
        if u:
            r = name[0] == "u"
        else:
            r = {"eq": a == b, "gt": a > b, "ge": a >= b, "lt": a < b, "le": a <= b, "ne": a != b}[rel]
    return 1 if r else 0


def arith_eval(name: str, args, in_tys, out_tys, attrs=None, index_bits: int = 64) -> tuple:
    """Evaluate one arith operation.  `name` with or without the "arith." prefix, `args` in refsem form,
    `in_tys`/`out_tys` type names, attrs: {"pred": int, "flags": iterable of "nsw"/"nuw", "value": v}."""
    if name.startswith("arith."):
        name = name[6:]
    attrs = attrs or {}
    nres = len(out_tys)
    P = (POISON,) * nres

    if name == "constant":
        ty = out_tys[0]
        v = attrs["value"]
        if _is_float(ty):
            return (round_float(float(v), ty),)
        return (to_unsigned(int(v), int_width(ty, index_bits)),)

    if name == "select":
        c, a, b = args
        if c is POISON:
            return P
        return (a if c & 1 else b,)

    if any(a is POISON for a in args):
        return P

    ty = in_tys[0] if in_tys else None

    # ---- integer binary ----------------------------------------------------------------
    if name in _INT_BIN:
        w = int_width(ty, index_bits)
        m = (1 << w) - 1
        a, b = args[0] & m, args[1] & m
        sa, sb = to_signed(a, w), to_signed(b, w)
        smin, smax = -(1 << (w - 1)), (1 << (w - 1)) - 1
        flags = set(attrs.get("flags", ()))
        if name in ("addi", "subi", "muli"):
            if name == "addi":
                su, ss = a + b, sa + sb
            elif name == "subi":
                su, ss = a - b, sa - sb
            else:
                su, ss = a * b, sa * sb
            if "nsw" in flags and not (smin <= ss <= smax):
                return P
            if "nuw" in flags and not (0 <= su <= m):
                return P
            return (su & m,)
        if name == "shli":
            if b >= w:
                return P
            full = a << b
            if "nuw" in flags and full > m:
                return P
            if "nsw" in flags and not (smin <= (sa << b) <= smax):
                return P
            return (full & m,)
        if name == "shrui":
            return P if b >= w else (a >> b,)
        if name == "shrsi":
            return P if b >= w else ((sa >> b) & m,)
        if name in ("divui", "remui", "ceildivui"):
            if b == 0:
                return ("UB",)
            if name == "divui":
                return (a // b,)
            if name == "remui":
                return (a % b,)
            return (-((-a) // b) & m,)
        if name in ("divsi", "remsi", "floordivsi", "ceildivsi"):
            if sb == 0:
                return ("UB",)
            if sa == smin and sb == -1:
                return ("UB",)
            if name == "divsi":
                r = _trunc_div(sa, sb)
            elif name == "remsi":
                r = sa - _trunc_div(sa, sb) * sb
            elif name == "floordivsi":
                r = sa // sb
            else:
                r = -((-sa) // sb)
            return (r & m,)
        if name == "andi":
            return (a & b,)
        if name == "ori":
            return (a | b,)
        if name == "xori":
            return (a ^ b,)
        if name == "minsi":
            return (a if sa <= sb else b,)
        if name == "maxsi":
            return (a if sa >= sb else b,)
        if name == "minui":
            return (a if a <= b else b,)
        if name == "maxui":
            return (a if a >= b else b,)
        if name == "addui_extended":
            s = a + b
            return (s & m, 1 if s > m else 0)
        if name == "mului_extended":
            p = a * b
            return (p & m, (p >> w) & m)
        if name == "mulsi_extended":
            p = sa * sb
            return (p & m, (p >> w) & m)

    if name == "cmpi":
        w = int_width(ty, index_bits)
        m = (1 << w) - 1
        a, b = args[0] & m, args[1] & m
        sa, sb = to_signed(a, w), to_signed(b, w)
        p = CMPI[attrs["pred"]]
        r = {"eq": a == b, "ne": a != b, "slt": sa < sb, "sle": sa <= sb, "sgt": sa > sb, "sge": sa >= sb,
             "ult": a < b, "ule": a <= b, "ugt": a > b, "uge": a >= b}[p]
        return (1 if r else 0,)

    # ---- integer casts -------------------------------------------------------------------
    if name in ("extsi", "extui", "trunci", "index_cast", "index_castui"):
        wi, wo = int_width(ty, index_bits), int_width(out_tys[0], index_bits)
        a = args[0] & ((1 << wi) - 1)
        if name == "extui" or name == "index_castui":
            return (a & ((1 << wo) - 1),)
        if name == "trunci":
            return (a & ((1 << wo) - 1),)
        return (to_signed(a, wi) & ((1 << wo) - 1),)      # extsi / index_cast: sign-extend or truncate

    # ---- float ---------------------------------------------------------------------------
    if name in ("addf", "subf", "mulf", "divf", "maximumf", "minimumf", "maxnumf", "minnumf"):
        a, b = float(args[0]), float(args[1])
        if name == "addf":
            r = a + b
        elif name == "subf":
            r = a - b
        elif name == "mulf":
            r = a * b
        elif name == "divf":
            r = _fdiv(a, b)
        elif name == "minimumf":
            r = _fmin(a, b, True)
        elif name == "maximumf":
            r = _fmax(a, b, True)
        elif name == "minnumf":
            r = _fmin(a, b, False)
        else:
            r = _fmax(a, b, False)
        if r is POISON:
            return P
        return (round_float(r, out_tys[0]),)
    if name == "negf":
        a = float(args[0])
        return (math.nan,) if a != a else (-a,)
    if name == "cmpf":
        return (_cmpf(attrs["pred"], float(args[0]), float(args[1])),)
    if name in ("sitofp", "uitofp"):
        w = int_width(ty, index_bits)
        a = args[0] & ((1 << w) - 1)
        n = to_signed(a, w) if name == "sitofp" else a
        return (_int_to_float(n, out_tys[0]),)
    if name in ("fptosi", "fptoui"):
        x = float(args[0])
        w = int_width(out_tys[0], index_bits)
        if x != x or x in (math.inf, -math.inf):
            return P
        n = int(x)          # truncates towards zero
        if name == "fptosi":
            if not (-(1 << (w - 1)) <= n <= (1 << (w - 1)) - 1):
                return P
        elif not (0 <= n <= (1 << w) - 1):
            return P
        return (n & ((1 << w) - 1),)
    if name == "extf":
        return (float(args[0]),)
    if name == "truncf":
        return (round_float(float(args[0]), out_tys[0]),)
    if name == "bitcast":
        to = out_tys[0]
        if _is_float(ty) and _is_float(to):
            if ty != to:
                raise UnsupportedOp("bitcast between float types of different width")
            return (args[0],)
        if _is_float(ty):
            x = float(args[0])
            if _FPK[ty][2] != int_width(to, index_bits):
                return P
            if x != x:
                return P        # NaN payload is not modelled: bit pattern unspecified
            return (float_to_bits(x, ty),)
        wi = int_width(ty, index_bits)
        a = args[0] & ((1 << wi) - 1)
        if _is_float(to):
            if _FPK[to][2] != wi:
                return P
            return (bits_to_float(a, to),)
        if int_width(to, index_bits) != wi:
            return P
        return (a,)
    raise UnsupportedOp("arith." + name)


_INT_BIN = {"addi", "subi", "muli", "divsi", "divui", "remsi", "remui", "floordivsi", "ceildivsi",
            "ceildivui", "andi", "ori", "xori", "shli", "shrsi", "shrui", "minsi", "maxsi", "minui",
            "maxui", "addui_extended", "mulsi_extended", "mului_extended"}


# ---------------------------------------------------------------------------------------------
# IR walker
# ---------------------------------------------------------------------------------------------

def _op_name(op) -> str:
    n = op.name
    if n == "builtin.unregistered":
        return op.attributes["op_name__"].data
    return n


def _arith_attrs(op, name: str) -> dict:
    props = op.properties
    if name == "arith.constant":
        v = props["value"]
        val = getattr(v, "value", None)
        if val is None or not hasattr(val, "data") or isinstance(val.data, (bytes, tuple, list)):
            raise UnsupportedOp("arith.constant with non-scalar value")
        return {"value": val.data}
    if name in ("arith.cmpi", "arith.cmpf"):
        return {"pred": props["predicate"].value.data}
    f = props.get("overflowFlags")
    if f is not None:
        return {"flags": [str(getattr(x, "value", x)) for x in f.data]}
    return {}


def eval_op(op, args, index_bits: int = 64) -> tuple:
    """Evaluate one region-free arith operation of the IR on refsem-form operand values.
    Immediate UB (division by zero, signed division overflow) is returned as POISON."""
    name = _op_name(op)
    if not name.startswith("arith."):
        raise UnsupportedOp(name)
    in_tys = [type_name(o.type) for o in op.operands]
    out_tys = [type_name(r.type) for r in op.results]
    r = arith_eval(name, args, in_tys, out_tys, _arith_attrs(op, name), index_bits)
    if r and r[0] == "UB" and isinstance(r[0], str):
        return (POISON,) * len(out_tys)
    return r


def _affine_eval(e, dims, syms, lim=None):
    """Value of an affine expression (unbounded ints); POISON if a div/mod has a non-positive rhs, or -- when
    `lim` is given -- if an intermediate value leaves [-lim, lim): affine expressions are evaluated in `index`
    arithmetic, and a value that depends on wrap-around has no target-independent meaning."""
    k = type(e).__name__
    if k == "AffineConstantExpr":
        return e.value
    if k == "AffineDimExpr":
        return dims[e.position]
    if k == "AffineSymExpr":
        return syms[e.position]
    if k == "AffineBinaryOpExpr":
        a = _affine_eval(e.lhs, dims, syms, lim)
        b = _affine_eval(e.rhs, dims, syms, lim)
        if a is POISON or b is POISON:
            return POISON
        kind = e.kind.name
        if kind == "Add":
            r = a + b
        elif kind == "Mul":
            r = a * b
        elif b <= 0:
            return POISON
        elif kind == "Mod":
            r = a - (a // b) * b
        elif kind == "FloorDiv":
            r = a // b
        elif kind == "CeilDiv":
            r = -((-a) // b)
        else:
            raise UnsupportedOp(f"affine expression {e}")
        if lim is not None and not (-lim <= r < lim):
            return POISON
        return r
    raise UnsupportedOp(f"affine expression {e}")


_SDIV_OPS = frozenset("arith." + n for n in ("divsi", "remsi", "floordivsi", "ceildivsi"))
_DIV_OPS = _SDIV_OPS | frozenset("arith." + n for n in ("divui", "remui", "ceildivui"))


class _Eval:
    MAX_DEPTH = 40

    def __init__(self, module, index_bits, fuel, trace=None):
        self.module = module
        self.ib = index_bits
        self.fuel = fuel
        self.trace = trace
        self.steps = 0
        self.effects = []
        self.ub = []
        self.trips = []
        self.ncalls = 0
        self.depth = 0
        self.npoison = 0
        self.syms = [{}]            # symref variables, one dict per call frame
        self.envs = None            # optional list: the SSA value -> runtime value dict of every call frame
        self.funcs = {}
        for op in _top_ops(module):
            if op.name == "func.func":
                self.funcs[op.properties["sym_name"].data] = op

    # ---- helpers ---------------------------------------------------------------------------
    def tick(self, n=1):
        self.steps += n
        if self.steps > self.fuel:
            raise _OutOfFuel()

    def poison_run(self, why):
        raise _PoisonRun(why)

    def sidx(self, v, what):
        """Signed value of an index operand that must be defined."""
        if v is POISON:
            self.poison_run(f"{what} is POISON")
        return to_signed(v, self.ib)

    def call(self, fop, args):
        region = fop.regions[0]
        if self.depth >= self.MAX_DEPTH:
            raise _OutOfFuel()
        self.depth += 1
        self.syms.append({})
        env = {}
        if self.envs is not None:
            self.envs.append(env)
        try:
            kind, vals = self.run_region(region, args, env)
        finally:
            self.depth -= 1
            self.syms.pop()
        if kind != "ret":
            raise UnsupportedOp(f"function body ended with {kind}")
        return vals

    def run_region(self, region, args, env):
        block = region.first_block
        if block is None:
            return "empty", ()
        while True:
            bargs = block.args
            if len(bargs) != len(args):
                raise UnsupportedOp("block argument count mismatch")
            for ba, v in zip(bargs, args):
                env[ba] = v
            op = block.first_op
            nxt = None
            while op is not None:
                self.tick()
                name = _op_name(op)
                vals = tuple([env[o] for o in op.operands])
                if self.trace is not None:
                    self.trace.append((op, vals))
                h = _TERMINATORS.get(name)
                if h is not None:
                    r = h(self, op, vals)
                    if r[0] == "jump":
                        nxt, args = r[1], r[2]
                        break
                    return r
                res = self.exec_op(op, name, vals, env)
                results = op.results
                if len(res) != len(results):
                    raise UnsupportedOp(f"{name}: {len(res)} values for {len(results)} results")
                for rv, v in zip(results, res):
                    env[rv] = v
                    if v is POISON:
                        self.npoison += 1
                op = op.next_op
            if nxt is None:
                return "fallthrough", ()
            block = nxt

    def exec_op(self, op, name, vals, env):
        if name.startswith("arith."):
            in_tys = [type_name(o.type) for o in op.operands]
            out_tys = [type_name(r.type) for r in op.results]
            if name in _DIV_OPS and len(vals) == 2 and POISON in (vals[0], vals[1]):
                # a POISON divisor may be zero, a POISON dividend of a signed division by -1 may be INT_MIN:
                # immediate UB (LLVM LangRef: division by poison), not merely a POISON result
                if vals[1] is POISON or (name in _SDIV_OPS and vals[1] is not POISON
                                         and to_signed(vals[1], int_width(in_tys[1], self.ib)) == -1):
                    self.ub.append(f"{name}: POISON operand of a division")
            r = arith_eval(name, vals, in_tys, out_tys, _arith_attrs(op, name), self.ib)
            if r and isinstance(r[0], str):      # "UB"
                self.ub.append(f"{name}: division by zero or signed division overflow")
                return (POISON,) * len(out_tys)
            return r
        h = _HANDLERS.get(name)
        if h is not None:
            return h(self, op, vals, env)
        if not op.results:
            self.effects.append(("op", name, vals, tuple(type_name(o.type) for o in op.operands)))
            return ()
        raise UnsupportedOp(name)

    # ---- func ------------------------------------------------------------------------------
    def h_call(self, op, vals, env):
        callee = op.properties["callee"].root_reference.data
        fop = self.funcs.get(callee)
        if fop is not None and fop.regions[0].first_block is not None:
            res = self.call(fop, vals)
            if len(res) != len(op.results):
                raise UnsupportedOp("call result count mismatch")
            return res
        tys = tuple(type_name(o.type) for o in op.operands)
        self.effects.append(("call", callee, vals, tys))
        idx = self.ncalls
        self.ncalls += 1
        return external_results(callee, idx, [type_name(r.type) for r in op.results], self.ib)

    def h_print(self, op, vals, env):
        fmt = op.attributes["format_str"].data
        self.effects.append(("print", fmt, vals, tuple(type_name(o.type) for o in op.operands)))
        return ()

    # ---- symref ----------------------------------------------------------------------------
    def h_sym_declare(self, op, vals, env):
        self.syms[-1][op.properties["sym_name"].data] = POISON
        return ()

    def h_sym_fetch(self, op, vals, env):
        name = op.properties["symbol"].root_reference.data
        if name not in self.syms[-1]:
            raise MalformedIR(f"symref.fetch of undeclared symbol @{name}")
        return (self.syms[-1][name],)

    def h_sym_update(self, op, vals, env):
        name = op.properties["symbol"].root_reference.data
        if name not in self.syms[-1]:
            raise MalformedIR(f"symref.update of undeclared symbol @{name}")
        self.syms[-1][name] = vals[0]
        return ()

    # ---- scf -------------------------------------------------------------------------------
    def h_if(self, op, vals, env):
        c = vals[0]
        if c is POISON:
            self.poison_run("scf.if condition is POISON")
        region = op.regions[0] if c & 1 else op.regions[1]
        kind, out = self.run_region(region, (), env)
        if kind in ("empty", "fallthrough"):
            out = ()
        return out

    def h_for(self, op, vals, env):
        lb, ub, step = vals[0], vals[1], vals[2]
        iters = tuple(vals[3:])
        if lb is POISON or ub is POISON or step is POISON:
            self.poison_run("scf.for bound is POISON")
        w = int_width(type_name(op.operands[0].type), self.ib)
        m = (1 << w) - 1
        smax = (1 << (w - 1)) - 1
        slb, sub_, sst = to_signed(lb, w), to_signed(ub, w), to_signed(step, w)
        if op.properties.get("unsignedCmp") is not None:
            raise UnsupportedOp("scf.for unsignedCmp")
        if sst <= 0:
            self.poison_run("scf.for step <= 0")
        iv = slb
        body = op.regions[0]
        trips = 0
        while iv < sub_:
            self.tick()
            kind, out = self.run_region(body, (iv & m,) + iters, env)
            if kind == "fallthrough":
                out = ()
            if len(out) != len(iters):
                raise UnsupportedOp("scf.for yield arity")
            iters = tuple(out)
            trips += 1
            iv += sst
            if iv > smax:
                self.poison_run("scf.for induction variable overflows its type")
        self.trips.append(trips)
        return iters

    def h_while(self, op, vals, env):
        before, after = op.regions[0], op.regions[1]
        cur = tuple(vals)
        trips = 0
        while True:
            self.tick()
            kind, out = self.run_region(before, cur, env)
            if kind != "cond":
                raise UnsupportedOp("scf.while before region must end in scf.condition")
            c, rest = out[0], tuple(out[1:])
            if c is POISON:
                self.poison_run("scf.condition on POISON")
            if not (c & 1):
                self.trips.append(trips)
                return rest
            trips += 1
            kind, out = self.run_region(after, rest, env)
            cur = tuple(out)

    def h_index_switch(self, op, vals, env):
        v = self.sidx(vals[0], "scf.index_switch argument")
        cases = list(op.properties["cases"].get_values())
        region = op.regions[0]
        for i, c in enumerate(cases):
            if c == v:
                region = op.regions[1 + i]
                break
        kind, out = self.run_region(region, (), env)
        return out

    def h_execute_region(self, op, vals, env):
        kind, out = self.run_region(op.regions[0], (), env)
        return out

    # ---- memref ----------------------------------------------------------------------------
    def _memref_type(self, t):
        from xdsl.dialects import builtin as b
        if not isinstance(t, b.MemRefType):
            raise UnsupportedOp(f"memref type {t}")
        if not isinstance(t.layout, b.NoneAttr):
            raise UnsupportedOp("memref with layout")
        return t

    def h_alloc(self, op, vals, env):
        t = self._memref_type(op.results[0].type)
        shape = []
        dyn = list(vals)
        for s in t.get_shape():
            if s < 0:
                d = self.sidx(dyn.pop(0), "dynamic memref size")
                if d < 0:
                    self.poison_run("negative memref size")
                shape.append(d)
            else:
                shape.append(s)
        n = 1
        for s in shape:
            n *= s
        if n > 1 << 16:
            raise UnsupportedOp("memref too large")
        return (MemRef(shape, type_name(t.element_type)),)

    def _addr(self, mem, idxs, what):
        if mem is POISON:
            self.poison_run(f"{what} on POISON memref")
        if not isinstance(mem, MemRef):
            raise UnsupportedOp(f"{what}: not a memref value")
        if not mem.alive:
            self.poison_run(f"{what} after dealloc")
        if len(idxs) != len(mem.shape):
            raise UnsupportedOp(f"{what}: rank mismatch")
        off = 0
        for i, s in zip(idxs, mem.shape):
            if i is POISON:
                self.poison_run(f"{what} index is POISON")
            if not (0 <= i < s):
                self.poison_run(f"{what} out of bounds")
            off = off * s + i
        return off

    def h_load(self, op, vals, env):
        mem = vals[0]
        idxs = [self.sidx(v, "memref.load index") for v in vals[1:]]
        off = self._addr(mem, idxs, "memref.load")
        return (mem.data[off],)

    def h_store(self, op, vals, env):
        v, mem = vals[0], vals[1]
        idxs = [self.sidx(x, "memref.store index") for x in vals[2:]]
        off = self._addr(mem, idxs, "memref.store")
        mem.data[off] = v
        return ()

    def h_dealloc(self, op, vals, env):
        mem = vals[0]
        if mem is POISON:
            self.poison_run("dealloc of POISON")
        if not isinstance(mem, MemRef):
            raise UnsupportedOp("dealloc of a non-memref value")
        if not mem.alive:
            self.poison_run("double dealloc")
        mem.alive = False
        return ()

    # ---- affine ----------------------------------------------------------------------------
    def _map(self, m, operands, what):
        nd = m.num_dims
        vs = [self.sidx(v, what) for v in operands]
        if len(vs) != nd + m.num_symbols:
            raise UnsupportedOp(f"{what}: operand count does not match the map")
        out = []
        lim = 1 << (self.ib - 1)
        for e in m.results:
            r = _affine_eval(e, vs[:nd], vs[nd:], lim)
            if r is not POISON and not (-lim <= r < lim):
                r = POISON      # index overflow: depends on the index width
            out.append(r)
        return out

    def h_affine_apply(self, op, vals, env):
        (r,) = self._map(op.properties["map"].data, vals, "affine.apply operand")
        return (POISON,) if r is POISON else (r & ((1 << self.ib) - 1),)

    def h_affine_for(self, op, vals, env):
        seg = list(op.properties["operandSegmentSizes"].get_values())
        lbo = vals[:seg[0]]
        ubo = vals[seg[0]:seg[0] + seg[1]]
        iters = tuple(vals[seg[0] + seg[1]:])
        lbs = self._map(op.properties["lowerBoundMap"].data, lbo, "affine.for bound operand")
        ubs = self._map(op.properties["upperBoundMap"].data, ubo, "affine.for bound operand")
        if any(x is POISON for x in lbs + ubs) or not lbs or not ubs:
            self.poison_run("affine.for bound undefined")
        lb, ub = max(lbs), min(ubs)
        step = op.properties["step"].value.data
        if step <= 0:
            self.poison_run("affine.for step <= 0")
        m = (1 << self.ib) - 1
        body = op.regions[0]
        iv = lb
        trips = 0
        while iv < ub:
            self.tick()
            kind, out = self.run_region(body, (iv & m,) + iters, env)
            if kind == "fallthrough":
                out = ()
            if len(out) != len(iters):
                raise UnsupportedOp("affine.for yield arity")
            iters = tuple(out)
            trips += 1
            iv += step
        self.trips.append(trips)
        return iters

    def h_affine_if(self, op, vals, env):
        s = op.properties["condition"].data
        nd = s.num_dims
        vs = [self.sidx(v, "affine.if operand") for v in vals]
        ok = True
        for c in s.constraints:
            a = _affine_eval(c.lhs, vs[:nd], vs[nd:], 1 << (self.ib - 1))
            b = _affine_eval(c.rhs, vs[:nd], vs[nd:], 1 << (self.ib - 1))
            if a is POISON or b is POISON:
                self.poison_run("affine.if constraint undefined")
            k = c.kind.name
            ok = ok and ((a >= b) if k == "ge" else (a <= b) if k == "le" else (a == b))
        region = op.regions[0] if ok else op.regions[1]
        kind, out = self.run_region(region, (), env)
        if kind in ("empty", "fallthrough"):
            out = ()
        return out

    def h_affine_load(self, op, vals, env):
        mem = vals[0]
        idxs = self._map(op.properties["map"].data, vals[1:], "affine.load index")
        if any(i is POISON for i in idxs):
            self.poison_run("affine.load index undefined")
        off = self._addr(mem, idxs, "affine.load")
        return (mem.data[off],)

    def h_affine_store(self, op, vals, env):
        v, mem = vals[0], vals[1]
        idxs = self._map(op.properties["map"].data, vals[2:], "affine.store index")
        if any(i is POISON for i in idxs):
            self.poison_run("affine.store index undefined")
        off = self._addr(mem, idxs, "affine.store")
        mem.data[off] = v
        return ()

    # ---- terminators -----------------------------------------------------------------------
    def t_return(self, op, vals):
        return "ret", vals

    def t_condition(self, op, vals):
        return "cond", vals

    def t_br(self, op, vals):
        return "jump", op.successors[0], vals

    def t_cond_br(self, op, vals):
        c = vals[0]
        if c is POISON:
            self.poison_run("cf.cond_br on POISON")
        seg = list(op.properties["operandSegmentSizes"].get_values())
        if c & 1:
            return "jump", op.successors[0], vals[1:1 + seg[1]]
        return "jump", op.successors[1], vals[1 + seg[1]:1 + seg[1] + seg[2]]

    def t_switch(self, op, vals):
        flag = vals[0]
        if flag is POISON:
            self.poison_run("cf.switch on POISON")
        w = int_width(type_name(op.operands[0].type), self.ib)
        m = (1 << w) - 1
        seg = list(op.properties["operandSegmentSizes"].get_values())
        dflt = vals[1:1 + seg[1]]
        caseops = vals[1 + seg[1]:]
        cv = op.properties.get("case_values")
        cases = list(cv.get_values()) if cv is not None else []
        csegs = list(op.properties["case_operand_segments"].get_values())
        pos = 0
        for i, c in enumerate(cases):
            n = csegs[i]
            if (c & m) == (flag & m):
                return "jump", op.successors[1 + i], caseops[pos:pos + n]
            pos += n
        return "jump", op.successors[0], dflt


_HANDLERS = {
    "func.call": _Eval.h_call, "printf.print_format": _Eval.h_print,
    "scf.if": _Eval.h_if, "scf.for": _Eval.h_for, "scf.while": _Eval.h_while,
    "scf.index_switch": _Eval.h_index_switch, "scf.execute_region": _Eval.h_execute_region,
    "memref.alloc": _Eval.h_alloc, "memref.alloca": _Eval.h_alloc, "memref.load": _Eval.h_load,
    "memref.store": _Eval.h_store, "memref.dealloc": _Eval.h_dealloc,
    "affine.apply": _Eval.h_affine_apply, "affine.for": _Eval.h_affine_for, "affine.if": _Eval.h_affine_if,
    "affine.load": _Eval.h_affine_load, "affine.store": _Eval.h_affine_store,
    "symref.declare": _Eval.h_sym_declare, "symref.fetch": _Eval.h_sym_fetch, "symref.update": _Eval.h_sym_update,
}
_TERMINATORS = {
    "func.return": _Eval.t_return, "scf.yield": _Eval.t_return, "affine.yield": _Eval.t_return,
    "scf.condition": _Eval.t_condition, "cf.br": _Eval.t_br, "cf.cond_br": _Eval.t_cond_br,
    "cf.switch": _Eval.t_switch,
}


def _top_ops(module):
    if module.name == "func.func":
        return [module]
    out = []
    for r in module.regions:
        for b in r.blocks:
            out.extend(b.ops)
    return out


def _norm_arg(v, ty: str, ib: int):
    if v is POISON or isinstance(v, MemRef):
        return v
    if _is_float(ty):
        return round_float(float(v), ty)
    if _is_int(ty):
        return to_unsigned(int(v), int_width(ty, ib))
    if ty.startswith("memref<") and isinstance(v, (list, tuple)):
        import re
        mm = re.fullmatch(r"((?:\d+x)+)(.+)", ty[7:-1])
        if mm:
            elem = mm.group(2)
            return MemRef([int(d) for d in mm.group(1)[:-1].split("x")], elem,
                          [_norm_arg(x, elem, ib) for x in v])
    raise UnsupportedOp(f"argument of type {ty}")


def run_function(module, name: str, args, index_bits: int = 64, fuel: int = 100000, trace=None,
                 envs=None) -> Result:
    """Evaluate function `name` of `module` (a builtin.module, or the func.func itself) on `args`.

    trace: optional list; (op, operand values) is appended for every operation in execution order.
    envs: optional list; the {SSA value: runtime value} dict of every call frame is appended (entry call first;
          a value defined in a loop holds its last value).

    args: ints (any representative of the bit pattern; bools allowed), floats, MemRef objects or plain
    lists for memref arguments (MemRef arguments are mutated in place; `Result.args` holds the normalised
    arguments after the run, so the final contents of memref arguments can be compared).
    Raises UnsupportedOp for IR refsem has no semantics for; never raises for UB (-> POISON)."""
    ev = _Eval(module, index_bits, fuel, trace)
    ev.envs = envs
    fop = ev.funcs.get(name)
    if fop is None:
        raise UnsupportedOp(f"no function {name}")
    blk = fop.regions[0].first_block
    if blk is None:
        raise UnsupportedOp(f"{name} is a declaration")
    if len(blk.args) != len(args):
        raise ValueError(f"{name} takes {len(blk.args)} arguments, {len(args)} given")
    nargs = tuple(_norm_arg(v, type_name(a.type), index_bits) for v, a in zip(args, blk.args))
    try:
        vals = ev.call(fop, nargs)
        res = Result(tuple(vals), ev.effects, ev.ub, ev.steps, ev.trips, npoison=ev.npoison)
    except _PoisonRun as e:
        res = Result(POISON, ev.effects, ev.ub, ev.steps, ev.trips, why=str(e), npoison=ev.npoison)
    except (_OutOfFuel, RecursionError):
        res = Result(OUT_OF_FUEL, ev.effects, ev.ub, ev.steps, ev.trips, why="fuel", npoison=ev.npoison)
    res.args = nargs
    return res


def run_function_any_index(module, name: str, args, fuel: int = 100000) -> Result:
    """Run with 32- and 64-bit `index`; a run whose observable behaviour depends on the index width is
    POISON (what target-independent passes may assume).  index-typed results are compared as signed values.
    `args` must not contain MemRef objects that the function mutates (they would be mutated twice)."""
    def cp(a):
        return tuple(x.copy() if isinstance(x, MemRef) else x for x in a)
    r64 = run_function(module, name, cp(args), 64, fuel)
    r32 = run_function(module, name, cp(args), 32, fuel)
    if not r64.ok or not r32.ok:
        if r64.values is r32.values:
            return r64
        return Result(POISON, r64.effects, r64.ub, r64.steps, r64.trips, why="index width dependent")
    fop = [o for o in _top_ops(module) if o.name == "func.func" and o.properties["sym_name"].data == name][0]
    rtys = [type_name(t) for t in fop.properties["function_type"].outputs.data]

    def same(x, y, ty):
        if x is POISON or y is POISON:
            return x is y
        if ty == "index":
            return to_signed(x, 64) == to_signed(y, 32)
        return values_equal(x, y)
    ok = len(r64.values) == len(r32.values) and all(
        same(x, y, t) for x, y, t in zip(r64.values, r32.values, rtys))
    ok = ok and len(r64.effects) == len(r32.effects) and bool(r64.ub) == bool(r32.ub)
    if ok:
        for e1, e2 in zip(r64.effects, r32.effects):
            if e1[:2] != e2[:2] or len(e1[2]) != len(e2[2]) or not all(
                    same(x, y, t) for x, y, t in zip(e1[2], e2[2], e1[3])):
                ok = False
                break
    if not ok:
        return Result(POISON, r64.effects, r64.ub, r64.steps, r64.trips, why="index width dependent")
    return r64


# ---------------------------------------------------------------------------------------------
# self test: hand-computed cases from the MLIR LangRef / arith documentation
# ---------------------------------------------------------------------------------------------

def _s(v, w):
    return v & ((1 << w) - 1)


_NAN = math.nan
_INF = math.inf
_P = POISON

# (op, in type, out type(s), attrs, args (signed ints allowed), expected (signed ints allowed | POISON))
_TABLE = [
    ("addi", "i8", "i8", {}, (127, 1), -128),
    ("addi", "i8", "i8", {}, (-1, 1), 0),
    ("addi", "i8", "i8", {"flags": ["nsw"]}, (127, 1), _P),
    ("addi", "i8", "i8", {"flags": ["nuw"]}, (255, 1), _P),
    ("addi", "i8", "i8", {"flags": ["nuw"]}, (127, 1), -128),
    ("addi", "i1", "i1", {}, (1, 1), 0),
    ("subi", "i8", "i8", {}, (-128, 1), 127),
    ("subi", "i32", "i32", {}, (0, 1), -1),
    ("subi", "i8", "i8", {"flags": ["nuw"]}, (0, 1), _P),
    ("muli", "i8", "i8", {}, (16, 16), 0),
    ("muli", "i8", "i8", {}, (-128, -1), -128),
    ("muli", "i32", "i32", {}, (65536, 65537), 65536),
    ("muli", "i8", "i8", {"flags": ["nsw"]}, (64, 2), _P),
    ("divsi", "i32", "i32", {}, (-7, 2), -3),
    ("divsi", "i32", "i32", {}, (7, -2), -3),
    ("divsi", "i32", "i32", {}, (-7, -2), 3),
    ("divsi", "i8", "i8", {}, (-128, -1), "UB"),
    ("divsi", "i8", "i8", {}, (5, 0), "UB"),
    ("divsi", "i8", "i8", {}, (-128, 1), -128),
    ("divui", "i8", "i8", {}, (-1, 2), 127),
    ("divui", "i16", "i16", {}, (6, -2), 0),          # LangRef: 6 / (2^16 - 2) = 0
    ("divui", "i8", "i8", {}, (1, 0), "UB"),
    ("remsi", "i32", "i32", {}, (-7, 2), -1),
    ("remsi", "i32", "i32", {}, (7, -2), 1),
    ("remsi", "i8", "i8", {}, (-128, -1), "UB"),
    ("remui", "i8", "i8", {}, (-1, 16), 15),
    ("remui", "i8", "i8", {}, (7, 0), "UB"),
    ("floordivsi", "i32", "i32", {}, (-7, 2), -4),
    ("floordivsi", "i32", "i32", {}, (5, -2), -3),     # dialect doc: 5 / -2 = -3
    ("floordivsi", "i32", "i32", {}, (7, 2), 3),
    ("ceildivsi", "i32", "i32", {}, (7, -2), -3),
    ("ceildivsi", "i32", "i32", {}, (7, 2), 4),
    ("ceildivsi", "i32", "i32", {}, (-7, 2), -3),
    ("ceildivui", "i8", "i8", {}, (7, 2), 4),
    ("ceildivui", "i8", "i8", {}, (-1, 2), 128),
    ("ceildivui", "i8", "i8", {}, (0, 3), 0),
    ("andi", "i8", "i8", {}, (-86, 15), 10),
    ("ori", "i8", "i8", {}, (-128, 1), -127),
    ("xori", "i8", "i8", {}, (-1, 85), -86),
    ("shli", "i8", "i8", {}, (1, 7), -128),
    ("shli", "i8", "i8", {}, (3, 7), -128),
    ("shli", "i8", "i8", {}, (1, 8), _P),
    ("shli", "i8", "i8", {}, (-1, 1), -2),
    ("shli", "i8", "i8", {}, (1, -1), _P),             # amount is unsigned: 255 >= 8
    ("shrsi", "i8", "i8", {}, (-128, 1), -64),
    ("shrsi", "i8", "i8", {}, (-1, 7), -1),
    ("shrsi", "i8", "i8", {}, (64, 8), _P),
    ("shrui", "i8", "i8", {}, (-128, 1), 64),
    ("shrui", "i8", "i8", {}, (-1, 7), 1),
    ("shrui", "i32", "i32", {}, (-1, 32), _P),
    ("minsi", "i8", "i8", {}, (-1, 1), -1),
    ("minui", "i8", "i8", {}, (-1, 1), 1),
    ("maxsi", "i8", "i8", {}, (-1, 1), 1),
    ("maxui", "i8", "i8", {}, (-1, 1), -1),
    ("cmpi", "i8", "i1", {"pred": 6}, (-1, 1), 0),       # ult with top bit set: 255 < 1 false
    ("cmpi", "i8", "i1", {"pred": 2}, (-1, 1), 1),       # slt: -1 < 1
    ("cmpi", "i8", "i1", {"pred": 8}, (-128, 127), 1),   # ugt: 128 > 127
    ("cmpi", "i8", "i1", {"pred": 4}, (-128, 127), 0),   # sgt
    ("cmpi", "i8", "i1", {"pred": 7}, (5, 5), 1),        # ule
    ("cmpi", "i8", "i1", {"pred": 9}, (0, -1), 0),       # uge: 0 >= 255
    ("cmpi", "i8", "i1", {"pred": 0}, (255, -1), 1),     # eq on bit patterns
    ("cmpi", "i8", "i1", {"pred": 1}, (255, -1), 0),
    ("cmpi", "i1", "i1", {"pred": 2}, (1, 0), 1),        # i1: 1 is -1 when signed
    ("cmpi", "i1", "i1", {"pred": 6}, (1, 0), 0),
    ("cmpi", "i8", "i1", {"pred": 3}, (-128, -128), 1),
    ("cmpi", "i8", "i1", {"pred": 5}, (-128, 127), 0),
    ("cmpi", "index", "i1", {"pred": 6}, (-1, 0), 0),
    ("select", "i1", "i8", {}, (1, 5, 9), 5),
    ("select", "i1", "i8", {}, (0, 5, 9), 9),
    ("select", "i1", "i8", {}, (1, 5, _P), 5),
    ("select", "i1", "i8", {}, (_P, 5, 9), _P),
    ("extsi", "i8", "i32", {}, (-128,), -128),
    ("extsi", "i8", "i16", {}, (0x80,), 0xFF80 - 0x10000),
    ("extui", "i8", "i32", {}, (-128,), 128),
    ("extui", "i1", "i8", {}, (1,), 1),
    ("extsi", "i1", "i8", {}, (1,), -1),
    ("trunci", "i32", "i8", {}, (0x1FF,), -1),
    ("trunci", "i32", "i8", {}, (0x180,), -128),
    ("trunci", "i16", "i1", {}, (2,), 0),
    ("index_cast", "i32", "index", {}, (-1,), -1),
    ("index_cast", "index", "i8", {}, (0x1234,), 0x34),
    ("index_castui", "i32", "index", {}, (-1,), 0xFFFFFFFF),
    ("addui_extended", "i8", ("i8", "i1"), {}, (200, 100), (44, 1)),
    ("addui_extended", "i8", ("i8", "i1"), {}, (100, 100), (200 - 256, 0)),
    ("mului_extended", "i8", ("i8", "i8"), {}, (-1, -1), (1, -2)),       # 255*255 = 0xFE01
    ("mulsi_extended", "i8", ("i8", "i8"), {}, (-1, -1), (1, 0)),
    ("mulsi_extended", "i8", ("i8", "i8"), {}, (-128, 2), (0, -1)),      # -256 = 0xFF00
    ("addf", "f32", "f32", {}, (struct.unpack("<f", struct.pack("<f", 0.1))[0],
                                struct.unpack("<f", struct.pack("<f", 0.2))[0]),
     bits_to_float(0x3E99999A, "f32")),                                   # 0.1f + 0.2f = 0.3f (0x3e99999a)
    ("addf", "f64", "f64", {}, (0.1, 0.2), 0.30000000000000004),
    ("addf", "f32", "f32", {}, (16777216.0, 1.0), 16777216.0),            # 2^24 + 1 rounds to even
    ("addf", "f32", "f32", {}, (3.4028234663852886e38, 3.4028234663852886e38), _INF),
    ("addf", "f64", "f64", {}, (_INF, -_INF), _NAN),
    ("subf", "f64", "f64", {}, (0.0, 0.0), 0.0),
    ("subf", "f64", "f64", {}, (-0.0, 0.0), -0.0),
    ("mulf", "f64", "f64", {}, (_INF, 0.0), _NAN),
    ("mulf", "f64", "f64", {}, (-1.0, 0.0), -0.0),
    ("mulf", "f32", "f32", {}, (1e-30, 1e-30), 0.0),
    ("divf", "f64", "f64", {}, (1.0, 0.0), _INF),
    ("divf", "f64", "f64", {}, (1.0, -0.0), -_INF),
    ("divf", "f64", "f64", {}, (0.0, 0.0), _NAN),
    ("divf", "f32", "f32", {}, (1.0, 3.0), bits_to_float(0x3EAAAAAB, "f32")),
    ("negf", "f64", "f64", {}, (0.0,), -0.0),
    ("minimumf", "f64", "f64", {}, (-0.0, 0.0), -0.0),
    ("maximumf", "f64", "f64", {}, (-0.0, 0.0), 0.0),
    ("minimumf", "f64", "f64", {}, (_NAN, 1.0), _NAN),
    ("minnumf", "f64", "f64", {}, (_NAN, 1.0), 1.0),
    ("maxnumf", "f64", "f64", {}, (2.0, _NAN), 2.0),
    ("minnumf", "f64", "f64", {}, (-0.0, 0.0), _P),
    ("cmpf", "f64", "i1", {"pred": 7}, (_NAN, 1.0), 0),      # ord
    ("cmpf", "f64", "i1", {"pred": 14}, (_NAN, 1.0), 1),     # uno
    ("cmpf", "f64", "i1", {"pred": 8}, (_NAN, 1.0), 1),      # ueq
    ("cmpf", "f64", "i1", {"pred": 1}, (_NAN, _NAN), 0),     # oeq
    ("cmpf", "f64", "i1", {"pred": 1}, (0.0, -0.0), 1),
    ("cmpf", "f64", "i1", {"pred": 6}, (_NAN, 1.0), 0),      # one
    ("cmpf", "f64", "i1", {"pred": 13}, (_NAN, 1.0), 1),     # une
    ("cmpf", "f64", "i1", {"pred": 4}, (1.0, 2.0), 1),       # olt
    ("cmpf", "f64", "i1", {"pred": 11}, (2.0, 1.0), 0),      # ult
    ("cmpf", "f64", "i1", {"pred": 0}, (1.0, 1.0), 0),
    ("cmpf", "f64", "i1", {"pred": 15}, (_NAN, _NAN), 1),
    ("cmpf", "f64", "i1", {"pred": 3}, (_INF, _INF), 1),     # oge
    ("cmpf", "f64", "i1", {"pred": 2}, (-_INF, 1.0), 0),     # ogt
    ("sitofp", "i8", "f32", {}, (-1,), -1.0),
    ("uitofp", "i8", "f32", {}, (-1,), 255.0),
    ("sitofp", "i32", "f32", {}, (16777217,), 16777216.0),
    ("sitofp", "i32", "f32", {}, (16777219,), 16777220.0),
    ("uitofp", "i64", "f32", {}, (-1,), 18446744073709551616.0),
    ("sitofp", "i64", "f64", {}, ((1 << 53) + 1,), 9007199254740992.0),
    ("sitofp", "i64", "f64", {}, ((1 << 53) + 3,), 9007199254740996.0),
    ("uitofp", "i64", "f32", {}, (0x8000008000000001,), 9223373136366403584.0),   # just above a tie: up
    ("fptosi", "f64", "i8", {}, (-1.9,), -1),
    ("fptosi", "f64", "i8", {}, (127.9,), 127),
    ("fptosi", "f64", "i8", {}, (128.0,), _P),
    ("fptosi", "f64", "i8", {}, (-128.9,), -128),
    ("fptosi", "f64", "i32", {}, (_NAN,), _P),
    ("fptoui", "f64", "i8", {}, (255.9,), -1),
    ("fptoui", "f64", "i8", {}, (-0.9,), 0),
    ("fptoui", "f64", "i8", {}, (-1.0,), _P),
    ("fptoui", "f64", "i8", {}, (256.0,), _P),
    ("extf", "f32", "f64", {}, (1.5,), 1.5),
    ("truncf", "f64", "f32", {}, (0.1,), 0.10000000149011612),
    ("truncf", "f64", "f32", {}, (1e39,), _INF),
    ("truncf", "f64", "f32", {}, (1e-46,), 0.0),
    ("bitcast", "f32", "i32", {}, (1.0,), 0x3F800000),
    ("bitcast", "i32", "f32", {}, (0xBF800000 - (1 << 32),), -1.0),
    ("bitcast", "f64", "i64", {}, (-0.0,), -(1 << 63)),
    ("bitcast", "i32", "f32", {}, (0x7FC00000,), _NAN),
]

_SELFTEST_IR = r"""
builtin.module {
  func.func private @ext(i32) -> i32
  func.func @sum(%n: index) -> index {
    %c0 = arith.constant 0 : index
    %c1 = arith.constant 1 : index
    %r = scf.for %i = %c0 to %n step %c1 iter_args(%acc = %c0) -> (index) {
      %s = arith.addi %acc, %i : index
      scf.yield %s : index
    }
    func.return %r : index
  }
  func.func @step(%lb: i32, %ub: i32, %st: i32) -> i32 {
    %c0 = arith.constant 0 : i32
    %c1 = arith.constant 1 : i32
    %r = scf.for %i = %lb to %ub step %st iter_args(%acc = %c0) -> (i32) : i32 {
      %s = arith.addi %acc, %c1 : i32
      scf.yield %s : i32
    }
    func.return %r : i32
  }
  func.func @countdown(%n: i32) -> (i32, i32) {
    %c0 = arith.constant 0 : i32
    %c1 = arith.constant 1 : i32
    %r:2 = scf.while (%a = %n, %b = %c0) : (i32, i32) -> (i32, i32) {
      %c = arith.cmpi sgt, %a, %c0 : i32
      scf.condition(%c) %a, %b : i32, i32
    } do {
    ^bb0(%x: i32, %y: i32):
      %x1 = arith.subi %x, %c1 : i32
      %y1 = arith.addi %y, %x : i32
      scf.yield %x1, %y1 : i32, i32
    }
    func.return %r#0, %r#1 : i32, i32
  }
  func.func @abs(%a: i32) -> i32 {
    %c0 = arith.constant 0 : i32
    %neg = arith.cmpi slt, %a, %c0 : i32
    %r = scf.if %neg -> (i32) {
      %m = arith.subi %c0, %a : i32
      scf.yield %m : i32
    } else {
      scf.yield %a : i32
    }
    func.return %r : i32
  }
  func.func @cfsum(%n: i32) -> i32 {
    %c0 = arith.constant 0 : i32
    cf.br ^head(%c0, %c0 : i32, i32)
  ^head(%acc: i32, %i: i32):
    %c = arith.cmpi sle, %i, %n : i32
    cf.cond_br %c, ^body(%acc, %i : i32, i32), ^exit(%acc : i32)
  ^body(%a2: i32, %i2: i32):
    %a3 = arith.addi %a2, %i2 : i32
    %c1 = arith.constant 1 : i32
    %i3 = arith.addi %i2, %c1 : i32
    cf.br ^head(%a3, %i3 : i32, i32)
  ^exit(%r: i32):
    func.return %r : i32
  }
  func.func @sw(%a: i32) -> i32 {
    %c7 = arith.constant 7 : i32
    %c9 = arith.constant 9 : i32
    cf.switch %a : i32, [
      default: ^d,
      -1: ^x(%c7 : i32),
      5: ^x(%c9 : i32)
    ]
  ^d:
    func.return %a : i32
  ^x(%v: i32):
    func.return %v : i32
  }
  func.func @isw(%a: index) -> i32 {
    %r = scf.index_switch %a -> i32
    case 2 {
      %c = arith.constant 20 : i32
      scf.yield %c : i32
    }
    case 5 {
      %c = arith.constant 50 : i32
      scf.yield %c : i32
    }
    default {
      %c = arith.constant -1 : i32
      scf.yield %c : i32
    }
    func.return %r : i32
  }
  func.func @calls(%a: i32) -> i32 {
    %x = func.call @abs(%a) : (i32) -> i32
    %y = func.call @ext(%x) : (i32) -> i32
    %z = func.call @ext(%y) : (i32) -> i32
    printf.print_format "v {}", %x : i32
    "test.sink"(%z) : (i32) -> ()
    func.return %x : i32
  }
  func.func @mem(%i: index, %v: i32) -> (i32, i32) {
    %m = memref.alloc() : memref<4xi32>
    %c0 = arith.constant 0 : index
    %c9 = arith.constant 9 : i32
    memref.store %c9, %m[%c0] : memref<4xi32>
    memref.store %v, %m[%i] : memref<4xi32>
    %a = memref.load %m[%c0] : memref<4xi32>
    %b = memref.load %m[%i] : memref<4xi32>
    memref.dealloc %m : memref<4xi32>
    func.return %a, %b : i32, i32
  }
  func.func @aff(%n: index) -> index {
    %c0 = arith.constant 0 : index
    %r = "affine.for"(%c0) <{lowerBoundMap = affine_map<() -> (2)>, upperBoundMap = affine_map<() -> (7)>, step = 2 : index, operandSegmentSizes = array<i32: 0, 0, 1>}> ({
    ^bb0(%i: index, %acc: index):
      %t = affine.apply affine_map<(d0)[s0] -> (d0 * 3 + s0 floordiv 2 + d0 mod 2)>(%i)[%n]
      %s = arith.addi %acc, %t : index
      "affine.yield"(%s) : (index) -> ()
    }) : (index) -> index
    func.return %r : index
  }
  func.func @divz(%a: i32, %b: i32) -> (i32, i32) {
    %q = arith.divsi %a, %b : i32
    func.return %q, %a : i32, i32
  }
  func.func @symsum(%n: index, %x: i32) -> (i32, i32) {
    %c0 = arith.constant 0 : index
    %c1 = arith.constant 1 : index
    symref.declare "a"
    symref.update @a = %x : i32
    symref.declare "u"
    scf.for %i = %c0 to %n step %c1 {
      %t = symref.fetch @a : i32
      %t2 = arith.addi %t, %t : i32
      symref.update @a = %t2 : i32
    }
    %r = symref.fetch @a : i32
    %u = symref.fetch @u : i32
    func.return %r, %u : i32, i32
  }
  func.func @symbad(%x: i32) -> i32 {
    %r = symref.fetch @nowhere : i32
    func.return %r : i32
  }
  func.func @symframes(%x: i32) -> i32 {
    symref.declare "a"
    symref.update @a = %x : i32
    %y = func.call @symsum2(%x) : (i32) -> i32
    %r = symref.fetch @a : i32
    func.return %r : i32
  }
  func.func @symsum2(%x: i32) -> i32 {
    %c = arith.constant 9 : i32
    symref.declare "a"
    symref.update @a = %c : i32
    func.return %x : i32
  }
}
"""

_selftest_done = False


def _parse_selftest_module():
    from xdsl.context import Context
    from xdsl.dialects import affine, arith, builtin, cf, func, memref, printf, scf, symref
    from xdsl.parser import Parser
    ctx = Context(allow_unregistered=True)
    for d in (builtin.Builtin, arith.Arith, func.Func, scf.Scf, cf.Cf, memref.MemRef, affine.Affine,
              printf.Printf, symref.Symref):
        ctx.load_dialect(d)
    m = Parser(ctx, _SELFTEST_IR).parse_module()
    m.verify()
    return m


def selftest(force: bool = False) -> int:
    """Check refsem against its table of hand-computed cases; raises AssertionError on any mismatch.
    Returns the number of cases.  Runs once per process unless force=True."""
    global _selftest_done
    if _selftest_done and not force:
        return 0
    n = 0
    for op, ity, otys, attrs, args, exp in _TABLE:
        otys = (otys,) if isinstance(otys, str) else tuple(otys)
        if op == "select":
            in_tys = ["i1", otys[0], otys[0]]
        else:
            in_tys = [ity] * len(args)
        nargs = []
        for a, t in zip(args, in_tys):
            if a is POISON:
                nargs.append(a)
            elif _is_float(t):
                nargs.append(float(a))
            else:
                nargs.append(_s(a, int_width(t)))
        got = arith_eval(op, tuple(nargs), in_tys, list(otys), attrs, 64)
        exps = exp if isinstance(exp, tuple) else (exp,)
        assert len(got) == len(exps), (op, args, got, exp)
        for g, e, t in zip(got, exps, otys):
            if isinstance(e, str):
                okk = g == e
            elif e is POISON:
                okk = g is POISON
            elif _is_float(t):
                okk = values_equal(g, float(e))
            else:
                okk = (g is not POISON) and not isinstance(g, str) and g == _s(e, int_width(t)) \
                    and 0 <= g < (1 << int_width(t))
            assert okk, f"refsem selftest: {op} {ity} {attrs} {args} -> {got!r}, expected {exp!r}"
        n += 1
    # index width
    assert arith_eval("index_cast", (_s(-1, 64),), ["i64"], ["index"], {}, 32) == (0xFFFFFFFF,)
    assert arith_eval("index_cast", (0x80000000,), ["index"], ["i64"], {}, 32) == (_s(-(1 << 31), 64),)
    assert arith_eval("addi", (0xFFFFFFFF, 1), ["index", "index"], ["index"], {}, 32) == (0,)
    assert arith_eval("addi", (0xFFFFFFFF, 1), ["index", "index"], ["index"], {}, 64) == (1 << 32,)
    n += 4
    assert values_equal(math.nan, -math.nan) and not values_equal(0.0, -0.0) and values_equal(255, -1, "i8")
    assert not values_equal(POISON, 0) and values_equal(POISON, POISON)
    n += 2

    m = _parse_selftest_module()

    def run(name, *args, **kw):
        return run_function(m, name, args, **kw)
    assert run("sum", 5).values == (10,) and run("sum", 5).trips == [5]
    assert run("sum", 0).values == (0,) and run("sum", _s(-3, 64)).values == (0,)
    assert run("step", _s(-3, 32), 4, 3).values == (3,)          # -3, 0, 3
    assert run("step", 5, 5, 1).values == (0,)
    assert run("step", 0, 4, 0).values is POISON
    assert run("step", 0, 4, _s(-1, 32)).values is POISON
    assert run("step", 0x7FFFFFF0, 0x7FFFFFFF, 0x20).values is POISON   # iv + step overflows
    assert run("countdown", 4).values == (0, 10)
    assert run("countdown", _s(-2, 32)).values == (_s(-2, 32), 0)
    assert run("countdown", 10 ** 6, fuel=1000).values is OUT_OF_FUEL
    assert run("abs", _s(-5, 32)).values == (5,) and run("abs", 7).values == (7,)
    assert run("abs", 0x80000000).values == (0x80000000,)
    assert run("cfsum", 4).values == (10,) and run("cfsum", _s(-1, 32)).values == (0,)
    assert run("sw", 5).values == (9,) and run("sw", 0xFFFFFFFF).values == (7,) and run("sw", 3).values == (3,)
    assert run("isw", 2).values == (20,) and run("isw", 5).values == (50,)
    assert run("isw", 3).values == (0xFFFFFFFF,)
    r = run("calls", _s(-4, 32))
    e0 = external_results("ext", 0, ["i32"])[0]
    e1 = external_results("ext", 1, ["i32"])[0]
    assert r.values == (4,), r
    assert r.effects == [("call", "ext", (4,), ("i32",)), ("call", "ext", (e0,), ("i32",)),
                         ("print", "v {}", (4,), ("i32",)), ("op", "test.sink", (e1,), ("i32",))], r.effects
    assert run("mem", 2, 77).values == (9, 77)
    assert run("mem", 0, 77).values == (77, 77)
    assert run("mem", 4, 1).values is POISON and run("mem", _s(-1, 64), 1).values is POISON
    # i = 2, 4, 6 ; n = 9: (6+4+0) + (12+4+0) + (18+4+0) = 48
    assert run("aff", 9).values == (48,) and run("aff", 9).trips == [3]
    r = run("divz", 1, 0)
    assert r.values == (POISON, 1) and r.ub and not r.defined
    assert compare_results(r, run("divz", 1, 1))[0] == "excluded"
    assert compare_results(run("divz", 6, 3), run("divz", 6, 3))[0] == "equal"
    assert compare_results(run("divz", 6, 3), run("divz", 6, 2))[0] == "differ"
    assert run_function_any_index(m, "sum", (5,)).values == (10,)
    assert run("symsum", 3, 5).values == (40, POISON) and run("symsum", 0, 5).values == (5, POISON)
    assert run("symframes", 4).values == (4,)            # the callee's @a is another variable
    frames: list = []
    run("abs", _s(-5, 32), envs=frames)
    assert len(frames) == 1 and sorted(v for v in frames[0].values() if isinstance(v, int)) == [0, 1, 5, 5, _s(-5, 32)]
    try:
        run("symbad", 1)
        raise AssertionError("refsem selftest: fetch of an undeclared symbol must raise MalformedIR")
    except MalformedIR:
        pass
    from xdsl.ir.affine import AffineBinaryOpExpr, AffineBinaryOpKind, AffineConstantExpr, AffineDimExpr
    ex = AffineBinaryOpExpr(AffineBinaryOpKind.CeilDiv,
                            AffineBinaryOpExpr(AffineBinaryOpKind.Mul, AffineDimExpr(0), AffineConstantExpr(-2)),
                            AffineConstantExpr(6))
    assert _affine_eval(ex, [-9], [], 1 << 63) == 3 and _affine_eval(ex, [-(1 << 63)], []) == (1 << 64) // 6 + 1
    assert _affine_eval(ex, [-(1 << 63)], [], 1 << 63) is POISON       # d0 * -2 leaves the index range
    n += 43
    _selftest_done = True
    return n


if __name__ == "__main__":
    print("refsem selftest:", selftest(), "cases ok")
