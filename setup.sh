#!/bin/bash
# Offline setup: make hypothesis (and atheris, optional) importable for /venv/bin/python.
cd "$(dirname "$0")" || exit 2
mkdir -p .deps out evidence
if ! /venv/bin/python -c "import hypothesis" 2>/dev/null; then
  /venv/bin/pip install --no-index --find-links /opt/veriftools/wheels --target .deps hypothesis || exit 1
fi
if ! PYTHONPATH=.deps /venv/bin/python -c "import atheris" 2>/dev/null; then
  /venv/bin/pip install --no-index --find-links /opt/veriftools/wheels --target .deps atheris >/dev/null 2>&1 || echo "atheris unavailable (optional)"
fi
exit 0
