#!/venv/bin/python
"""Regenerates /verif/MANIFEST.json from tools/manifest_src.json (per-property texts) for every
property that has a check module; all other properties are listed under not_applicable with the reason
given in manifest_src.json (default: 'check not built yet')."""
import json, os
ROOT = os.path.dirname(os.path.dirname(os.path.abspath(__file__)))
src = json.load(open(os.path.join(ROOT, "tools", "manifest_src.json")))
props = [json.loads(l) for l in open(os.path.join(ROOT, "properties.jsonl"))]
checks, na = [], []
for p in props:
    pid = p["id"]
    e = src["checks"].get(pid)
    if e and e.get("claimed", True) and os.path.exists(os.path.join(ROOT, "vt", "props", pid + ".py")):
        checks.append({
            "property_id": pid,
            "quick_cmd": f"./check {pid} quick",
            "thorough_cmd": f"./check {pid} thorough",
            "evidence_file": f"/verif/evidence/{pid}.json",
            "replay_cmd_template": f"./check {pid} quick --replay {{path}}",
            "engine": e.get("engine", "hypothesis"),
            "level_claimed": {"category": "exploration", "text": e["text"], "design_ref": f"DESIGN.md §4 {pid}"},
            "level_note": e["note"],
            "technique": e["technique"],
        })
    else:
        na.append({"property_id": pid, "reason": (e or {}).get("na_reason", src["default_na"])})
m = {
    "version": 1,
    "setup_cmd": "./setup.sh",
    "hooks": {"guard": "XDSL_VERIF", "enable": "no source hooks: checks import /repo's working tree (editable install) and observe public APIs only",
              "baseline_off_cmd": "cd /repo && /venv/bin/python -m pytest -ra -q -p no:cacheprovider --timeout=900 --continue-on-collection-errors",
              "source_commits": [], "add_only": True},
    "engines": src["engines"],
    "checks": checks,
    "notes": src["notes"],
    "not_applicable": na,
}
json.dump(m, open(os.path.join(ROOT, "MANIFEST.json"), "w"), indent=1)
print(len(checks), "checks,", len(na), "not claimed")
