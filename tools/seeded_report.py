#!/venv/bin/python
"""Collects /verif/seeded/<ID>-<k>/ (patch.diff, demo.py, meta.json from the seeding sub-agent) and
/verif/seeded/RESULTS.txt (one line per evaluation run by /root/work/seeded_eval.sh) into
/verif/seeded/SUMMARY.md, and records my own confirmation + check results in each meta.json.
seeded/NOTES.json holds the hand-written notes (what was strengthened after a miss)."""
import json
import os
import re

ROOT = os.path.dirname(os.path.dirname(os.path.abspath(__file__)))
S = os.path.join(ROOT, "seeded")
notes = json.load(open(os.path.join(S, "NOTES.json"))) if os.path.exists(os.path.join(S, "NOTES.json")) else {}
runs = {}
for line in open(os.path.join(S, "RESULTS.txt")):
    m = re.match(r"(C\d+-\d) demo_clean=(\d+) demo_with=(\d+) suite=\[(.*?)\] checks=\[(.*?)\]", line.strip())
    if m:
        key, dc, dw, suite, checks = m.groups()
        runs.setdefault(key, []).append({"demo_exit_clean_tree": int(dc), "demo_exit_with_change": int(dw),
                                         "suite_with_change": suite, "checks": checks.strip()})
rows = []
for key in sorted(os.listdir(S)):
    d = os.path.join(S, key)
    mp = os.path.join(d, "meta.json")
    if not os.path.isdir(d) or not os.path.exists(mp):
        continue
    meta = json.load(open(mp))
    ev = runs.get(key, [])
    meta["confirmed_by_me"] = ev[0] if ev else None
    meta["check_runs"] = [e["checks"] for e in ev]
    note = notes.get(key, "")
    meta["outcome_note"] = note
    json.dump(meta, open(mp, "w"), indent=1)
    first = ev[0]["checks"] if ev else "-"
    last = ev[-1]["checks"] if ev else "-"

    def caught(c):
        return any(int(x.split(":")[1]) > 0 for x in c.split() if ":" in x)
    status = "not evaluated"
    if ev:
        if caught(first):
            status = "caught"
        elif note.startswith("MISSED"):
            status = "MISSED"
        elif note.startswith("not caught by the quick"):
            status = "thorough tier only"
        else:
            status = "caught after strengthening" if (caught(last) or note) else "MISSED"
    rows.append((key, meta.get("property", key[:3]), (meta.get("summary") or "")[:160].replace("|", "/"),
                 (meta.get("needs") or "")[:160].replace("|", "/"), first, status, note))
out = ["# Seeded changes (independent sub-agents, property text only) and which checks catch them", "",
       "| change | what it does | needs | first quick run (check:violations) | outcome | note |", "|---|---|---|---|---|---|"]
for r in rows:
    out.append(f"| {r[0]} | {r[2]} | {r[3]} | {r[4]} | {r[5]} | {r[6]} |")
open(os.path.join(S, "SUMMARY.md"), "w").write("\n".join(out) + "\n")
print(len(rows), "changes;", sum(r[5] == "caught" for r in rows), "caught at first run;",
      sum(r[5].startswith("caught after") for r in rows), "after strengthening;",
      sum(r[5] == "thorough tier only" for r in rows), "thorough only;", sum(r[5] == "MISSED" for r in rows), "missed")
