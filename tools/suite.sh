#!/bin/bash
# Pinned baseline suite (guard off). Expected: "2 failed, 5247 passed" (the 2 are the baseline's always_fail tests).
cd /repo && /venv/bin/python -m pytest -q -p no:cacheprovider --timeout=900 --continue-on-collection-errors 2>&1 | grep -E "^(FAILED|ERROR)|passed|failed" | tail -8
